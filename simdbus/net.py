"""
Network / reactor stub: the one component that must be faithful to Twisted's stream
transport contract (read from the installed Twisted 26.4 sources):

* write()/writeSequence() are accepted while connected, including after loseConnection()
  (abstract.FileDescriptor.write only checks `connected`), dropped after the connection
  is gone;
* loseConnection() sets `disconnecting`, stops reading, lets written bytes reach the peer,
  then the closer gets connectionLost(ConnectionDone) on a later reactor turn and the peer
  gets it after it has read everything that was written;
* an exception escaping dataReceived is logged and becomes connectionLost(Failure(exc))
  for that protocol, synchronously (posixbase._doReadOrWrite -> _disconnectSelectable);
* connectionLost is delivered exactly once per protocol;
* descriptors queued with sendFileDescriptor() travel with the first bytes of the next
  write, one per byte (unix._SendmsgMixin.writeSomeData), and are handed to
  fileDescriptorReceived() before the dataReceived() of the read that contains the byte
  they are attached to (unix._SendmsgMixin.doRead).

The stream is reliable and ordered; what the scheduler owns is segmentation, relative
progress of pipes, stalls, and the instants of close/reset.
"""
import hashlib

from twisted.internet import error as tierror
from twisted.internet import interfaces as tiface
from twisted.internet.base import DelayedCall
from twisted.python.failure import Failure
from zope.interface import directlyProvides, implementer

import re

from .kernel import HarnessError, SimCancelled, Violation

_HOME_RE = re.compile(rb'txdbus-sim-\d+/(?:j[^/]{1,12}rg-)?w\d+')

OPEN, CLOSING, LOST = 'open', 'closing', 'lost'


class FakeSocket:
    def __init__(self, creds):
        self.creds = creds

    def getsockopt(self, level, opt, size):
        import struct
        if self.creds is None:
            raise OSError(92, 'Protocol not available')
        return struct.pack('3i', *self.creds)


class FakeAddress:
    def __init__(self, name):
        self.name = name

    def __repr__(self):
        return '<addr %s>' % self.name


class Pipe:
    """One direction of one connection."""

    def __init__(self, name):
        self.name = name
        self.buf = bytearray()
        self.base = 0            # absolute stream offset of buf[0]
        self.total = 0           # absolute offset of the end of everything written
        self.bounds = []         # absolute end offsets of frames (one per write) still ahead
        self.fds = []            # [(absolute attach position, fd)] in stream order
        self.stall = 0
        self.first_seq = 0       # global write sequence number of the oldest pending byte
        self.src = None
        self.dst = None

    def pending(self):
        return len(self.buf)

    def next_bound(self):
        """bytes until the end of the first frame still (partly) pending"""
        for b in self.bounds:
            if b > self.base:
                return b - self.base
        return len(self.buf)


@implementer(tiface.ITransport)
class SimTransport:
    """What txdbus uses of ITransport / IUNIXTransport."""

    def __init__(self, sim, name, node, unix=False, creds=None):
        self.sim = sim
        self.name = name
        self.node = node
        self.protocol = None
        self.state = OPEN
        self.connected = True
        self.disconnecting = False
        self.out = None
        self.inp = None
        self.peer = None
        self.eof = False                 # peer side closed: EOF follows the pending bytes
        self.eof_reason = None
        self.own_reason = None
        self.lost_count = 0
        self.pending_fds = []            # queued by sendFileDescriptor for the next write
        self.socket = FakeSocket(creds)
        self.taps = []                   # callables(data) observing every write
        self.fd_taps = []
        self.nwrites = 0
        self.written = 0
        self.unix = unix
        self.broken = False              # reset: the socket is dead, writes go nowhere
        if unix:
            directlyProvides(self, tiface.IUNIXTransport)

    # -- ITransport ---------------------------------------------------------------------
    def write(self, data):
        if not isinstance(data, (bytes, bytearray)):
            raise TypeError('Data must be bytes')
        if self.state == LOST or not data:
            return
        data = bytes(data)
        if self.broken:
            # the socket is dead but the application has not been told yet
            self.sim.log('w-dead', self.name, len(data))
            for t in self.taps:
                t(data)
            return
        p = self.out
        if not p.buf:
            self.sim.wseq += 1
            p.first_seq = self.sim.wseq
        # descriptors: one per byte from the start of this write (Twisted semantics)
        for i, fd in enumerate(self.pending_fds):
            p.fds.append((p.total + min(i, len(data) - 1), fd))
        self.pending_fds = []
        p.buf += data
        p.total += len(data)
        p.bounds.append(p.total)
        self.nwrites += 1
        self.written += len(data)
        # (the scratch home of the synthetic user is named after the worker process: what is
        # logged must not depend on it)
        logged = _HOME_RE.sub(b'HOME', data) if b'txdbus-sim-' in data else data
        self.sim.log('w', self.name, len(logged), hashlib.sha1(logged).hexdigest()[:8])
        for t in self.taps:
            t(data)

    def writeSequence(self, seq):
        self.write(b''.join(seq))

    def loseConnection(self, _reason=None):
        if self.state != OPEN:
            return
        self.state = CLOSING
        self.disconnecting = True
        self.own_reason = tierror.ConnectionDone()
        self.sim.log('close', self.name)
        if self.peer is not None and not self.peer.eof:
            self.peer.eof = True
            self.peer.eof_reason = tierror.ConnectionDone()

    def abortConnection(self):
        # as Twisted's: reading stops, connectionLost(ConnectionAborted) comes from a later
        # reactor iteration - and `disconnecting` is NOT set
        if self.state != OPEN:
            return
        self.state = CLOSING
        self.own_reason = tierror.ConnectionAborted()
        self.sim.log('abort', self.name)
        if self.peer is not None and not self.peer.eof:
            self.peer.eof = True
            self.peer.eof_reason = tierror.ConnectionDone()

    def sendFileDescriptor(self, fd):
        self.pending_fds.append(fd)
        for t in self.fd_taps:
            t(fd)

    def getPeer(self):
        return FakeAddress(self.name + '.peer')

    def getHost(self):
        return FakeAddress(self.name)

    def setTcpNoDelay(self, x):
        pass

    # -- scheduler side -----------------------------------------------------------------
    def can_lose(self):
        if self.state == LOST:
            return False
        if self.state == CLOSING:
            return True
        return self.eof and not self.inp.buf

    def do_lose(self):
        reason = self.own_reason if self.state == CLOSING else self.eof_reason
        if reason is None:
            reason = tierror.ConnectionDone()
        self.state = LOST
        self.connected = False
        self.lost_count += 1
        if self.peer is not None and not self.peer.eof:
            self.peer.eof = True
            self.peer.eof_reason = tierror.ConnectionDone()
        self.sim.log('lost', self.name, type(reason).__name__)
        try:
            self.sim.call(self.node, self.protocol.connectionLost, Failure(reason))
        except Exception as e:
            self.sim.exceptions.append((self.name, 'connectionLost', e))
            self.sim.log('exc', self.name, 'connectionLost', type(e).__name__)


class Connection:
    def __init__(self, sim, name, a_node, b_node, unix=False, creds=None):
        self.sim = sim
        self.name = name
        self.a = SimTransport(sim, name + '.a', a_node, unix=unix)
        self.b = SimTransport(sim, name + '.b', b_node, unix=unix, creds=creds)
        ab = Pipe(name + '.a>b')
        ba = Pipe(name + '.b>a')
        ab.src, ab.dst = self.a, self.b
        ba.src, ba.dst = self.b, self.a
        self.a.out, self.a.inp, self.a.peer = ab, ba, self.b
        self.b.out, self.b.inp, self.b.peer = ba, ab, self.a
        self.pipes = [ab, ba]
        sim.conns.append(self)

    def attach(self, a_proto, b_proto, a_first=True):
        """makeConnection on both ends (server side first when a_first is False)"""
        order = [(self.a, a_proto), (self.b, b_proto)]
        if not a_first:
            order.reverse()
        for t, p in order:
            t.protocol = p
        for t, p in order:
            self.sim.call(t.node, p.makeConnection, t)

    def reset(self, keep_ab=None, keep_ba=None):
        """abrupt loss: keep only a prefix of the pending bytes of each direction"""
        for p, keep in ((self.pipes[0], keep_ab), (self.pipes[1], keep_ba)):
            if keep is not None and keep < len(p.buf):
                del p.buf[keep:]
                p.total = p.base + keep
                p.bounds = [b for b in p.bounds if b <= p.total]
                p.fds = [(pos, fd) for pos, fd in p.fds if pos < p.total]
        for t in (self.a, self.b):
            t.broken = True
            if t.state != LOST:
                t.eof = True
                t.eof_reason = tierror.ConnectionLost()
                if t.state == CLOSING:
                    t.own_reason = tierror.ConnectionLost()
        self.sim.log('reset', self.name)


def deliver(sim, pipe, n):
    """Hand the next n pending bytes of pipe to the receiving protocol."""
    dst = pipe.dst
    n = max(1, min(n, len(pipe.buf)))
    data = bytes(pipe.buf[:n])
    del pipe.buf[:n]
    pipe.base += n
    while pipe.bounds and pipe.bounds[0] <= pipe.base:
        pipe.bounds.pop(0)
    due = []
    while pipe.fds and pipe.fds[0][0] < pipe.base:
        due.append(pipe.fds.pop(0)[1])
    sim.log('d', pipe.name, n, len(due))
    proto = dst.protocol
    try:
        if due:
            for fd in due:
                sim.call(dst.node, proto.fileDescriptorReceived, fd)
        sim.call(dst.node, proto.dataReceived, data)
    except (Violation, HarnessError):
        # raised by an oracle sitting on a hook inside the code under test: never swallowed
        raise
    except (Exception, SimCancelled) as e:
        sim.exceptions.append((dst.name, 'dataReceived', e))
        sim.log('exc', dst.name, 'dataReceived', type(e).__name__)
        if dst.state != LOST:
            dst.state = LOST
            dst.connected = False
            dst.lost_count += 1
            if dst.peer is not None and not dst.peer.eof:
                dst.peer.eof = True
                dst.peer.eof_reason = tierror.ConnectionDone()
            try:
                sim.call(dst.node, proto.connectionLost, Failure(e))
            except Exception as e2:
                sim.exceptions.append((dst.name, 'connectionLost', e2))
                sim.log('exc', dst.name, 'connectionLost', type(e2).__name__)
        return e
    return None


def deliverable(sim):
    """pipes with bytes whose reader is reading, oldest pending write first"""
    out = []
    for c in sim.conns:
        for p in c.pipes:
            if p.buf and p.dst.state == OPEN and p.dst.protocol is not None:
                if p.stall > 0:
                    continue
                out.append(p)
    out.sort(key=lambda p: p.first_seq)
    return out


def stalled(sim):
    return [p for c in sim.conns for p in c.pipes if p.stall > 0]


def losable(sim):
    return [t for c in sim.conns for t in (c.a, c.b)
            if t.protocol is not None and t.can_lose()]


# chunk size classes; 0 is the benign one (everything pending in one read)
SIZE_CLASSES = ('all', 'frame', 'one', 'rand', 'frame-1', 'frame+1', 'hdr16', 'small')


def chunk_size(ds, pipe, weights):
    pend = len(pipe.buf)
    cls = ds.weighted(weights)
    nb = pipe.next_bound()
    if cls == 0:
        n = pend
    elif cls == 1:
        n = nb
    elif cls == 2:
        n = 1
    elif cls == 3:
        n = 1 + ds.choose(pend)
    elif cls == 4:
        n = max(1, nb - 1)
    elif cls == 5:
        n = nb + 1
    elif cls == 6:
        n = 16
    else:
        n = 2 + ds.choose(14)
    n = max(1, min(n, pend))
    # boundary class for the schedule digest
    if n == pend:
        bc = 'all'
    elif n == nb:
        bc = 'frame'
    elif n < 16 or (n > nb and n - nb < 16):
        bc = 'hdr'
    else:
        bc = 'mid'
    return n, bc


class SimReactor:
    """Clock + outbound connections.  Real Twisted DelayedCall objects, so cancel()/active()
    semantics are genuine; they fire only when the scheduler says so."""

    def __init__(self, sim):
        self.sim = sim
        self._seq = 0
        self.connect_log = []
        self.connect_handler = None      # callable(kind, address, factory) installed by C09

    def seconds(self):
        return self.sim.now

    def callLater(self, delay, f, *a, **kw):
        # as ReactorBase.callLater: a negative (or non-numeric) delay is refused
        assert callable(f), '%r is not callable' % (f,)
        assert delay >= 0, '%s is not greater than or equal to 0 seconds' % (delay,)
        self._seq += 1
        dc = DelayedCall(self.sim.now + delay, f, a, kw, self._cancel, self._reset,
                         seconds=self.seconds)
        dc._seq = self._seq
        dc._node = self.sim.cur_node
        self.sim.timers.append(dc)
        self.sim.log('callLater', dc._seq, delay)
        return dc

    def _cancel(self, dc):
        if dc in self.sim.timers:
            self.sim.timers.remove(dc)
        self.sim.log('cancel', dc._seq)

    def _reset(self, dc):
        pass

    def getDelayedCalls(self):
        return self.sim.pending_timers()

    def connectUNIX(self, address, factory, timeout=30, checkPID=0):
        return self.connect_handler('unix', address, factory)

    def connectTCP(self, host, port, factory, timeout=30, bindAddress=None):
        return self.connect_handler('tcp', (host, port), factory)
