"""
Generators over the decision stream: signatures, typed values, names, messages.
Every draw is ordered so that 0 gives the simplest alternative.
"""
import struct

from . import refcodec as rc
from .refcodec import V

BASIC = ['i', 's', 'u', 'y', 'b', 'n', 'q', 'x', 't', 'd', 'o', 'g']
KEYS = ['s', 'i', 'u', 'y', 'o', 'q']

INT_RANGE = {'y': (0, 255), 'n': (-2**15, 2**15 - 1), 'q': (0, 2**16 - 1),
             'i': (-2**31, 2**31 - 1), 'u': (0, 2**32 - 1),
             'x': (-2**63, 2**63 - 1), 't': (0, 2**64 - 1)}

WORDS = ['a', 'b', 'foo', 'Bar', 'x1', 'org', 'test', 'Obj', 'z_9', 'com']
STRINGS = ['', 'a', 'hello', 'x\r\ny', '\r\n', 'héllo', '€', '/a/b', 'a.b.c',
           'x' * 31, 'l', 'B', '\r', '\n\r\n']
# when values must pass through txdbus's *inferring* variant marshaller, variants hold basic
# types only (the inferred signature of a container depends on its first element)
SIMPLE_VARIANTS = [False]
DOUBLES = [0.0, 1.5, -2.25, 1e300, float('inf'), float('-inf'), float('nan'), -0.0]


def single_type(ds, depth=2, allow_fd=False):
    k = ds.weighted([6, 2, 2, 1, 1] if depth > 0 else [1])
    if k == 0:
        return ds.pick(BASIC)
    if k == 1:
        return 'a' + single_type(ds, depth - 1)
    if k == 2:
        n = 1 + ds.choose(3)
        return '(' + ''.join(single_type(ds, depth - 1) for _ in range(n)) + ')'
    if k == 3:
        return 'a{' + ds.pick(KEYS) + single_type(ds, depth - 1) + '}'
    return 'v'


def signature(ds, maxn=3, depth=2):
    n = ds.choose(maxn + 1)
    return ''.join(single_type(ds, depth) for _ in range(n))


def obj_path(ds):
    n = ds.choose(4)
    if n == 0:
        return '/'
    return '/' + '/'.join(ds.pick(WORDS) for _ in range(n))


def iface_name(ds):
    n = 2 + ds.choose(2)
    return '.'.join(['org', 'sim'][:1] + [ds.pick(WORDS[:6] + ['I1', 'I2', 'z_9', '_u', 'A0_b'])
                                          for _ in range(n - 1)])


def member_name(ds):
    return ds.pick(['Ping', 'Foo', 'bar', 'Get', 'M_1', 'x', 'Changed'])


def value(ds, t, depth=2):
    """a typed reference value of complete type t"""
    c = t[0]
    if c in INT_RANGE:
        lo, hi = INT_RANGE[c]
        k = ds.choose(6)
        if k == 0:
            return max(lo, min(hi, 7))
        if k == 1:
            return lo
        if k == 2:
            return hi
        if k == 3:
            # bytes that look like CR LF in the encoding
            return max(lo, min(hi, 0x0A0D if hi >= 0x0A0D else 13))
        if k == 4:
            return max(lo, min(hi, 0x0D0A0D0A))
        return lo + ds.choose(min(hi - lo + 1, 1000))
    if c == 'b':
        return bool(ds.choose(2))
    if c == 'd':
        return ds.pick(DOUBLES)
    if c == 's':
        return ds.pick(STRINGS)
    if c == 'o':
        return obj_path(ds)
    if c == 'g':
        return ds.pick(['', 'i', 'a{sv}', '(ii)', 'as'])
    if c == 'h':
        return 0
    if c == 'a':
        et = t[1:]
        n = ds.geometric(4, 0.45)
        if et[0] == '{':
            kt, vt = rc.split_sig(et[1:-1])
            out = []
            seen = set()
            for _ in range(n):
                k = value(ds, kt, depth - 1)
                ck = rc.canon(k)
                if ck in seen:
                    continue
                seen.add(ck)
                out.append((k, value(ds, vt, depth - 1)))
            return out
        return [value(ds, et, depth - 1) for _ in range(n)]
    if c in '({':
        return tuple(value(ds, st, depth - 1) for st in rc.split_sig(t[1:-1]))
    if c == 'v':
        if SIMPLE_VARIANTS[0]:
            # what txdbus can send through its inferring variant marshaller: basic types and
            # NON-EMPTY containers of basic types (the inferred type comes from the first element)
            s = variant_inner_sig(ds)
            return V(s, value_nonempty(ds, s))
        s = single_type(ds, max(0, depth - 1))
        return V(s, value(ds, s, depth - 1))
    raise ValueError(t)


def variant_inner_sig(ds):
    k = ds.weighted([6, 2, 1, 1])
    if k == 0:
        return ds.pick(BASIC)
    if k == 1:
        return 'a' + ds.pick(BASIC)
    if k == 2:
        return '(' + ds.pick(BASIC) + ds.pick(BASIC) + ')'
    return 'a{' + ds.pick(KEYS) + ds.pick(BASIC) + '}'


def value_nonempty(ds, t):
    c = t[0]
    if c == 'a':
        et = t[1:]
        n = 1 + ds.choose(3)
        if et[0] == '{':
            kt, vt = rc.split_sig(et[1:-1])
            out, seen = [], set()
            for _ in range(n):
                k = value(ds, kt, 0)
                if rc.canon(k) in seen:
                    continue
                seen.add(rc.canon(k))
                out.append((k, value(ds, vt, 0)))
            return out
        return [value(ds, et, 0) for _ in range(n)]
    if c == '(':
        return tuple(value(ds, st, 0) for st in rc.split_sig(t[1:-1]))
    return value(ds, t, 0)


def body(ds, sig, depth=2):
    return [value(ds, t, depth) for t in rc.split_sig(sig)]


def to_txdbus(t, v):
    """typed reference value -> a Python value txdbus's marshaller accepts for type t"""
    from txdbus import marshal as tm
    c = t[0]
    if c == 'a':
        et = t[1:]
        if et[0] == '{':
            kt, vt = rc.split_sig(et[1:-1])
            return {to_txdbus(kt, k): to_txdbus(vt, x) for k, x in v}
        return [to_txdbus(et, x) for x in v]
    if c == '(':
        return tuple(to_txdbus(st, x) for st, x in zip(rc.split_sig(t[1:-1]), v))
    if c == 'v':
        return to_variant(v.sig, v.value)
    return v


class Level(int):
    """what applications put into variants: enum-like subclasses of int ..."""


class Label(str):
    """... and of str"""


def to_variant(t, v):
    """a Python value whose *inferred* variant signature is exactly t (wrapper types)"""
    from txdbus import marshal as tm
    c = t[0]
    if c in tm.variantClassMap:
        return tm.variantClassMap[c](v)
    if c == 'i' and v % 3 == 0:
        return Level(v)
    if c == 's' and len(v) % 2:
        return Label(v)
    if c in 'bsdi':
        return v
    if c == 'a':
        et = t[1:]
        if et[0] == '{':
            kt, vt = rc.split_sig(et[1:-1])
            return {to_variant(kt, k): to_variant(vt, x) for k, x in v}
        return [to_variant(et, x) for x in v]
    if c == '(':
        return tuple(to_variant(st, x) for st, x in zip(rc.split_sig(t[1:-1]), v))
    raise ValueError('no exact variant wrapper for %r' % t)


def random_message(ds, serial, big_ok=True, mtypes=(1, 2, 3, 4), maxsig=3):
    """a reference message of any type with random header fields and body"""
    mt = ds.pick(list(mtypes))
    f = {}
    if mt in (1, 4):
        f[rc.F_PATH] = obj_path(ds)
        f[rc.F_MEMBER] = member_name(ds)
        if mt == 4 or ds.flag(0.7):
            f[rc.F_INTERFACE] = iface_name(ds)
    if mt in (2, 3):
        f[rc.F_REPLY_SERIAL] = 1 + ds.choose(2**16)
    if mt == 3:
        f[rc.F_ERROR_NAME] = 'org.sim.Error.' + ds.pick(WORDS)
    if ds.flag(0.5):
        f[rc.F_DESTINATION] = ds.pick([':1.5', 'org.sim.dest', ':1.77'])
    if ds.flag(0.5):
        f[rc.F_SENDER] = ds.pick([':1.9', ':1.123'])
    sig = signature(ds, maxsig)
    b = body(ds, sig)
    flags = ds.pick([0, 0, 1, 2, 3])
    little = not (big_ok and ds.flag(0.3))
    order = None
    if ds.flag(0.3):
        order = ds.shuffle([1, 2, 3, 4, 5, 6, 7, 8, 9])
    extra = []
    if ds.flag(0.15):
        extra.append((ds.pick([10, 42, 200]), 's', 'ignored'))
    m = rc.Msg(mt, serial, f, sig, b, flags, little, extra, order)
    m.encode()
    return m


def tx_body(ds, sig, depth=2):
    """(reference body, the same values as Python objects txdbus can marshal under sig)"""
    SIMPLE_VARIANTS[0] = True
    try:
        ref = body(ds, sig, depth)
    finally:
        SIMPLE_VARIANTS[0] = False
    return ref, [to_txdbus(t, v) for t, v in zip(rc.split_sig(sig), ref)]


# ---------------------------------------------------------------------------------------
# interface descriptions (neutral form; txdbus objects and XML are derived from them)
class IfaceDesc:
    def __init__(self, name):
        self.name = name
        self.methods = []      # (name, sig_in, sig_out)
        self.signals = []      # (name, sig)
        self.props = []        # (name, sig, access, emits)

    def method(self, name):
        for m in self.methods:
            if m[0] == name:
                return m
        return None

    def __repr__(self):
        return 'Iface(%s m=%r s=%r p=%r)' % (self.name, self.methods, self.signals, self.props)


METHOD_NAMES = ['Fetch', 'Put', 'Frob', 'Echo', 'Sum', 'Ping', 'Quux']
SIGNAL_NAMES = ['Changed', 'Tick', 'Alert']
PROP_NAMES = ['Level', 'Name', 'Mode', 'Size']
SIMPLE_SIGS = ['', 'i', 's', 'ii', 'as', 'u', 'b', 'd', '(is)', 'a{si}', 'v', 'ay', 'x', 'o', 'si', 't', 'n', 'q', 'y', 'g',
               'iiii', 'sisis', 'a{sv}', 'aas', '(i(ss))', 'a(ii)']
PROP_SIGS = ['i', 's', 'u', 'b', 'd', 'y', 'n', 'q', 'x', 't', 'o', 'g', 'as', 'ai', '(is)', 'a{si}']


def interface(ds, name, nmeth=None, rich=True, props=True):
    d = IfaceDesc(name)
    n = (1 + ds.choose(3)) if nmeth is None else nmeth
    names = ds.shuffle(METHOD_NAMES)[:n]
    if rich and ds.flag(0.04):
        names[0] = 'L' + 'o' * 253 + 'g'          # 255 characters: the longest legal member name
    for mn in sorted(names):
        if rich:
            # mostly everyday signatures, sometimes anything the type grammar allows
            si = signature(ds, 3, 2) if ds.flag(0.3) else ds.pick(SIMPLE_SIGS)
            so = signature(ds, 2, 2) if ds.flag(0.3) else ds.pick(SIMPLE_SIGS)
        else:
            si = ds.pick(SIMPLE_SIGS[:6])
            so = ds.pick(SIMPLE_SIGS[:6])
        d.methods.append((mn, si, so))
    for sn in SIGNAL_NAMES[:ds.choose(3)]:
        d.signals.append((sn, ds.pick(SIMPLE_SIGS[:8])))
    if d.methods and ds.flag(0.2):
        # a signal that shares its name with a method of the same interface
        d.signals.append((d.methods[0][0], ds.pick(SIMPLE_SIGS[:8])))
    if props:
        for pn in PROP_NAMES[:ds.choose(4)]:
            d.props.append((pn, ds.pick(PROP_SIGS), ds.pick(['read', 'readwrite', 'write']),
                            ds.pick(['true', 'false', 'invalidates'])))
    return d


def iface_xml(d):
    """introspection XML for one interface, written from the DBus specification"""
    out = ['  <interface name="%s">' % d.name]
    for mn, si, so in d.methods:
        out.append('    <method name="%s">' % mn)
        for t in rc.split_sig(si):
            out.append('      <arg type="%s" direction="in"/>' % t)
        for t in rc.split_sig(so):
            out.append('      <arg type="%s" direction="out"/>' % t)
        out.append('    </method>')
    for sn, ss in d.signals:
        out.append('    <signal name="%s">' % sn)
        for t in rc.split_sig(ss):
            out.append('      <arg type="%s"/>' % t)
        out.append('    </signal>')
    for pn, ps, acc, em in d.props:
        out.append('    <property name="%s" type="%s" access="%s">' % (pn, ps, acc))
        out.append('      <annotation name="org.freedesktop.DBus.Property.EmitsChangedSignal" '
                   'value="%s"/>' % em)
        out.append('    </property>')
    out.append('  </interface>')
    return '\n'.join(out)


def node_xml(path, descs, children=()):
    head = ('<!DOCTYPE node PUBLIC "-//freedesktop//DTD D-BUS Object Introspection 1.0//EN"\n'
            '"http://www.freedesktop.org/standards/dbus/1.0/introspect.dtd">\n')
    body = ['<node name="%s">' % path] + [iface_xml(d) for d in descs] + \
           ['  <node name="%s"/>' % c for c in children] + ['</node>']
    return head + '\n'.join(body)


def tx_interface(d, register=True):
    """txdbus DBusInterface for a description (must be called inside the node context)"""
    from txdbus import interface as ti
    args = [ti.Method(mn, si, so) for mn, si, so in d.methods]
    args += [ti.Signal(sn, ss) for sn, ss in d.signals]
    later = []
    for i, (pn, ps, acc, em) in enumerate(d.props):
        kw = {'readable': acc in ('read', 'readwrite'), 'writeable': acc in ('write', 'readwrite')}
        if em != 'true' or i % 2 == 0:
            kw['emitsOnChange'] = {'true': True, 'false': False, 'invalidates': 'invalidates'}[em]
        # (else: the default mode, which is to announce changes)
        p = ti.Property(pn, ps, **kw)
        # some properties are handed to the constructor, others added to the interface later
        (later if i % 3 == 1 else args).append(p)
    if register:
        iface = ti.DBusInterface(d.name, *args)
    else:
        iface = ti.DBusInterface(d.name, *args, noRegister=True)
    for p in later:
        iface.addProperty(p)
    return iface


def prop_value(ds, sig):
    """(typed reference value, Python value to assign) for a property of type sig; containers
    are non-empty so that txdbus's first-element variant inference yields the declared type"""
    t = sig
    c = t[0]
    if c == 'a':
        et = t[1:]
        n = 1 + ds.choose(3)
        if et[0] == '{':
            kt, vt = rc.split_sig(et[1:-1])
            ref = []
            seen = set()
            for i in range(n):
                k = value(ds, kt, 0)
                if rc.canon(k) in seen:
                    continue
                seen.add(rc.canon(k))
                ref.append((k, value(ds, vt, 0)))
        else:
            ref = [value(ds, et, 0) for _ in range(n)]
    else:
        ref = value(ds, t, 1)
    return ref, to_txdbus(t, ref)
