"""
Sensitivity: run the checks against small semantic breakages of txdbus ("mutants").

  ./check mutants                 all patches under /verif/mutants and /verif/seeded
  ./check mutants m_c08_*         selected ones (glob on the patch name)

Each patch is applied to a scratch copy of /repo's txdbus package under /dev/shm (removed
afterwards); the check named in the patch header must exit 1 with a VIOLATION line.
Patch header lines:  '# property: C08[,C09]'   '# tier: quick|thorough'
"""
import fnmatch
import glob
import json
import os
import shutil
import subprocess
import sys
import time

VERIF = os.path.dirname(os.path.dirname(os.path.abspath(__file__)))
REPO = '/repo'


def scratch_base():
    import tempfile
    return '/dev/shm' if os.path.isdir('/dev/shm') and os.access('/dev/shm', os.W_OK) else tempfile.gettempdir()


def parse_header(path):
    props, tier = [], 'quick'
    with open(path) as f:
        for line in f:
            if line.startswith('# property:'):
                props = [p.strip() for p in line.split(':', 1)[1].split(',')]
            elif line.startswith('# tier:'):
                tier = line.split(':', 1)[1].strip()
            elif line.startswith(('diff ', '--- ')):
                break
    return props, tier


def collect():
    out = []
    for p in sorted(glob.glob(os.path.join(VERIF, 'mutants', '*.patch'))):
        out.append((os.path.basename(p)[:-6], p))
    for d in sorted(glob.glob(os.path.join(VERIF, 'seeded', '*'))):
        p = os.path.join(d, 'patch.diff')
        if os.path.exists(p):
            out.append(('seeded/' + os.path.basename(d), p))
    return out


def props_of(name, path):
    if name.startswith('seeded/'):
        meta = os.path.join(os.path.dirname(path), 'meta.json')
        with open(meta) as f:
            m = json.load(f)
        return m.get('checks') or [m['property']], m.get('tier', 'quick')
    return parse_header(path)


def expected_miss(name, path):
    if name.startswith('seeded/'):
        with open(os.path.join(os.path.dirname(path), 'meta.json')) as f:
            return json.load(f).get('expect') == 'miss'
    return False


def run_one(name, path, budget=None):
    props, tier = props_of(name, path)
    scratch = os.path.join(scratch_base(), 'txdbus-mut-%d-%s' % (os.getpid(), name.replace('/', '_')))
    shutil.rmtree(scratch, ignore_errors=True)
    os.makedirs(scratch)
    results = []
    try:
        shutil.copytree(os.path.join(REPO, 'txdbus'), os.path.join(scratch, 'txdbus'))
        r = subprocess.run(['patch', '-p1', '-s', '-i', path], cwd=scratch,
                           capture_output=True, text=True)
        if r.returncode != 0:
            return [(name, '-', 'PATCH-FAILED', 0, r.stdout + r.stderr)]
        for prop in props:
            # evidence and replay files of mutant runs go to the scratch directory: the
            # files under /verif describe the real tree only
            env = dict(os.environ, VERIF_REPO=scratch,
                       VERIF_EVIDENCE_DIR=os.path.join(scratch, 'evidence'),
                       VERIF_REPLAY_DIR=os.path.join(scratch, 'replays'))
            env.pop('PYTHONHASHSEED', None)
            if budget:
                env['VERIF_BUDGET_S'] = str(budget)
            t0 = time.time()
            r = subprocess.run([os.path.join(VERIF, 'check'), prop, tier], cwd=VERIF, env=env,
                               capture_output=True, text=True, timeout=3600)
            dt = time.time() - t0
            lines = [l for l in r.stdout.splitlines() if l.startswith(('violation:', 'HARNESS'))]
            status = {0: 'MISSED', 1: 'DETECTED'}.get(r.returncode, 'HARNESS-ERROR(%d)' % r.returncode)
            if status == 'MISSED' and expected_miss(name, path):
                status = 'EXPECTED-MISS'
            results.append((name, prop, status, dt, '; '.join(l[:160] for l in lines[:2])))
    finally:
        shutil.rmtree(scratch, ignore_errors=True)
        # replay files written for mutants are not findings on the real tree
    return results


def main(argv):
    pats = [a for a in argv if not a.startswith('-')]
    allm = collect()
    if pats:
        allm = [(n, p) for n, p in allm if any(fnmatch.fnmatch(n, q) for q in pats)]
    rows = []
    try:
        for name, path in allm:
            for row in run_one(name, path):
                rows.append(row)
                print('%-44s %-4s %-18s %6.1fs  %s' % row)
                sys.stdout.flush()
    finally:
        pass
    missed = [r for r in rows if r[2] not in ('DETECTED', 'EXPECTED-MISS')]
    print('%d mutant/check pairs, %d detected, %d not' % (len(rows), len(rows) - len(missed), len(missed)))
    rpath = os.path.join(VERIF, 'mutants', 'RESULTS.json')
    merged = {}
    if os.path.exists(rpath):
        try:
            with open(rpath) as f:
                for x in json.load(f):
                    merged[(x['mutant'], x['check'])] = x
        except ValueError:
            pass
    for r in rows:
        for k in [k for k in merged if k[0] == r[0] and k[1] == '-']:
            del merged[k]
        merged[(r[0], r[1])] = {'mutant': r[0], 'check': r[1], 'status': r[2],
                                'wall_s': round(r[3], 1), 'first': r[4]}
    known = set(n for n, _ in collect())
    paths = dict(collect())
    for k in list(merged):
        if k[0] not in paths:
            continue
        checks_now, _ = props_of(k[0], paths[k[0]])
        if k[1] != '-' and k[1] not in checks_now:
            del merged[k]          # judged by another check since (meta.json 'checks' changed)
        elif merged[k]['status'] == 'MISSED' and expected_miss(k[0], paths[k[0]]):
            merged[k]['status'] = 'EXPECTED-MISS'
    with open(rpath, 'w') as f:
        json.dump([merged[k] for k in sorted(merged) if k[0] in known], f, indent=1)
    return 0 if not missed else 1
