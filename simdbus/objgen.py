"""
Generated exported classes: interfaces with random member signatures, the same member on
two interfaces, inherited classes contributing interfaces, dbus_<name> and @dbusMethod
bindings, methods that ask for dbusCaller, declared properties.

Every generated method body calls hook(obj, mspec, args, caller) and returns its result, so
the scenario decides outcomes (value / exception / Deferred) and records invocations.
"""
from . import gen
from .gen import IfaceDesc

from txdbus import objects as t_objects


class MSpec:
    def __init__(self, iface, name, sig_in, sig_out, binding, wants_caller):
        self.iface = iface
        self.name = name
        self.sig_in = sig_in
        self.sig_out = sig_out
        self.binding = binding            # 'plain' (dbus_<name>) or 'deco' (@dbusMethod)
        self.wants_caller = wants_caller
        self.shared_with = None           # plain binding shared by a second interface

    def __repr__(self):
        return 'M(%s.%s %r->%r %s%s)' % (self.iface, self.name, self.sig_in, self.sig_out,
                                          self.binding, ' caller' if self.wants_caller else '')


class ClassSpec:
    def __init__(self, name):
        self.name = name
        self.ifaces = []          # [IfaceDesc] contributed by this class
        self.methods = {}         # (iface, member) -> MSpec   (this class only)
        self.base = None
        self.prop_attrs = {}      # (iface, prop) -> attribute name
        self.split_iface = None   # a base-class interface partly implemented here
        self.mixin = False        # a plain Python mix-in class precedes the DBus base class
        self.abstract_props = False   # the DBusProperty attributes live on an abstract class in between
        self.abs_klass = None

    def all_ifaces(self):
        out = list(self.ifaces)
        if self.base:
            out += self.base.all_ifaces()
        return out

    def lookup(self, iface, member):
        c = self
        while c:
            if (iface, member) in c.methods:
                return c.methods[(iface, member)]
            c = c.base
        return None

    def attr(self, iface, prop):
        c = self
        while c:
            if (iface, prop) in c.prop_attrs:
                return c.prop_attrs[(iface, prop)]
            c = c.base
        raise KeyError((iface, prop))

    def iface(self, name):
        for d in self.all_ifaces():
            if d.name == name:
                return d
        return None


class PlainMixin:
    """an ordinary Python class in front of the DBus base class (logging helpers and the like)"""

    def describe(self):
        return 'object at %s' % self.getObjectPath()


def nargs(sig):
    from . import refcodec as rc
    return len(rc.split_sig(sig))


def class_spec(ds, tag, n_ifaces=None, with_base=None, rich=True, props=False):
    """a class contributing 1-2 interfaces (and optionally deriving from a base spec)"""
    cs = ClassSpec('Gen' + tag)
    cs.base = with_base
    cs.mixin = ds.flag(0.25)
    n = n_ifaces or (1 + ds.choose(2))
    used = set(d.name for d in (with_base.all_ifaces() if with_base else []))
    for i in range(n):
        name = 'org.sim.%s%d' % (tag, i)
        d = gen.interface(ds, name, rich=rich, props=props)
        if with_base is not None:
            # member names bound in the base class stay unambiguous
            taken = set(k[1] for k in _all_methods(with_base))
            d.methods = [m for m in d.methods if m[0] not in taken]
        cs.ifaces.append(d)
    # the same member on two interfaces
    if len(cs.ifaces) == 2 and cs.ifaces[0].methods and ds.flag(0.5):
        a, b = cs.ifaces
        mn, si, so = a.methods[0]
        if not b.method(mn):
            style = ds.choose(2)
            if style == 0:
                b.methods.append((mn, si, so))            # same signature: may share dbus_<name>
            else:
                b.methods.append((mn, ds.pick(gen.SIMPLE_SIGS[:6]), ds.pick(gen.SIMPLE_SIGS[:6])))
            b.methods.sort()
    seen_plain = {}
    for d in cs.ifaces:
        for mn, si, so in d.methods:
            wants = ds.flag(0.3)
            if mn in seen_plain:
                first = seen_plain[mn]
                if first.binding == 'plain' and (first.sig_in, first.sig_out) == (si, so) and ds.flag(0.5):
                    # one dbus_<name> serves both interfaces
                    m = MSpec(d.name, mn, si, so, 'plain', first.wants_caller)
                    m.shared_with = first
                    cs.methods[(d.name, mn)] = m
                    continue
                binding = 'deco'
            else:
                binding = 'plain' if ds.flag(0.5) else 'deco'
                # a member inherited from the base with a plain binding would shadow: use deco
                if with_base is not None and any(k[1] == mn for k in _all_methods(with_base)):
                    binding = 'deco'
            m = MSpec(d.name, mn, si, so, binding, wants)
            cs.methods[(d.name, mn)] = m
            if mn not in seen_plain:
                seen_plain[mn] = m
    # one interface bound partly in the base class and partly in the subclass: move the
    # implementation of a decorated member of a base interface into this class
    if with_base is not None and ds.flag(0.5):
        movable = [(k, m) for k, m in sorted(with_base.methods.items())
                   if m.binding == 'deco' and m.shared_with is None
                   and not any(o.shared_with is m for o in with_base.methods.values())]
        siblings = {}
        for k, m in with_base.methods.items():
            siblings.setdefault(k[0], []).append(m)
        movable = [(k, m) for k, m in movable
                   if sum(1 for o in siblings[k[0]] if o.binding == 'deco') >= 2]
        if movable:
            k, m = movable[ds.choose(len(movable))]
            del with_base.methods[k]
            cs.methods[k] = m
            cs.split_iface = k[0]
    # a plain binding followed by deco for the same name: the plain one has no _dbusInterface
    # and would serve every interface; make the first one deco as well in that case
    for mn, first in seen_plain.items():
        others = [m for (i, n), m in cs.methods.items() if n == mn and m is not first
                  and m.shared_with is None]
        if others and first.binding == 'plain':
            first.binding = 'deco'
            for (i, n), m in cs.methods.items():
                if m.shared_with is first:
                    m.shared_with = None
                    m.binding = 'deco'
    return cs


def _all_methods(cs):
    out = {}
    c = cs
    while c:
        for k, v in c.methods.items():
            out.setdefault(k, v)
        c = c.base
    return out


def build_class(cs, hook, tx_ifaces, extra_attrs=None):
    """Create the Python class for a spec.  tx_ifaces: {iface name: txdbus DBusInterface}."""
    base = build_class(cs.base, hook, tx_ifaces) if cs.base else t_objects.DBusObject
    ns = {'dbusInterfaces': [tx_ifaces[d.name] for d in cs.ifaces]}
    done_plain = set()
    for (iname, mn), m in sorted(cs.methods.items()):
        if m.shared_with is not None:
            continue
        n = nargs(m.sig_in)
        params = ''.join(', a%d' % i for i in range(n))
        plist = ', '.join('a%d' % i for i in range(n))
        if m.binding == 'plain':
            fname = 'dbus_' + mn
            if fname in done_plain:
                continue
            done_plain.add(fname)
        else:
            fname = 'impl_%s_%s' % (iname.replace('.', '_'), mn)
        src = 'def %s(self%s%s):\n    return _hook(self, _spec, [%s], %s)\n' % (
            fname, params, ', dbusCaller=None' if m.wants_caller else '', plist,
            'dbusCaller' if m.wants_caller else 'None')
        env = {'_hook': hook, '_spec': m}
        exec(src, env)
        fn = env[fname]
        if m.binding == 'deco':
            fn = t_objects.dbusMethod(iname, mn)(fn)
        ns[fname] = fn
    pns = {}
    for d in cs.ifaces:
        for pn, ps, acc, em in d.props:
            attr = 'p_%s_%s' % (d.name.split('.')[-1], pn)
            cs.prop_attrs[(d.name, pn)] = attr
            pns[attr] = t_objects.DBusProperty(pn, d.name)
    if cs.abstract_props and pns:
        # an abstract class declares the properties; the concrete class names the interfaces
        cs.abs_klass = type('Abs' + cs.name, (base,), pns)
        base = cs.abs_klass
    else:
        ns.update(pns)
    if extra_attrs:
        ns.update(extra_attrs)
    if cs.mixin:
        mix = type('Mixin' + cs.name, (), {'describe': PlainMixin.describe})
        cs.klass = type(cs.name, (mix, base), ns)
    else:
        cs.klass = type(cs.name, (base,), ns)
    return cs.klass


def build_tx_ifaces(cs):
    """txdbus DBusInterface objects for every interface of the spec chain (node context!)"""
    out = {}
    for d in cs.all_ifaces():
        out[d.name] = gen.tx_interface(d, register=True)
    return out
