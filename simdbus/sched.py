"""
The seeded scheduler: at every step, computes the enabled actions in a deterministic order
and lets the decision stream pick one.  Alternative 0 is always the most benign: deliver
the oldest pending bytes whole.
"""
from . import net

KINDS = ('deliver', 'lose', 'timer', 'op', 'fire', 'fault', 'stall')


class Scheduler:
    def __init__(self, ctx, allow_stall=True, split=True, profile=None):
        self.ctx = ctx
        self.sim = ctx.sim
        self.ds = ctx.ds
        ds = self.ds
        # swarm: per-run weights (first alternative of each draw = calm configuration)
        self.w = {
            'deliver': ds.pick([4.0, 1.0, 10.0]),
            'lose': ds.pick([2.0, 0.3, 6.0]),
            'timer': ds.pick([1.0, 0.2, 4.0]),
            'op': ds.pick([2.0, 0.5, 6.0]),
            'fire': ds.pick([1.0, 0.3, 4.0]),
            'fault': ds.pick([0.3, 0.0, 1.0]),
            'stall': ds.pick([0.0, 0.2, 0.5]) if allow_stall else 0.0,
        }
        if profile:
            self.w.update(profile)
        if split:
            k = ds.choose(4)
            # size-class weights: all, frame, one, rand, frame-1, frame+1, hdr16, small
            self.sizew = [
                [6, 2, 1, 2, 1, 1, 1, 1],
                [1, 0, 0, 0, 0, 0, 0, 0],
                [1, 1, 6, 2, 1, 1, 1, 2],
                [1, 3, 0.3, 3, 3, 3, 2, 1],
            ][k]
        else:
            self.sizew = [1, 0, 0, 0, 0, 0, 0, 0]
        self.fifo_bias = ds.pick([0.6, 0.95, 0.2])
        # most runs make real progress between faults: 0-2 injected faults per run
        self.fault_budget = ds.pick([1, 0, 0, 2, 1])

    def candidates(self, extra):
        c = {k: [] for k in KINDS}
        c['deliver'] = net.deliverable(self.sim)
        c['lose'] = net.losable(self.sim)
        t = self.sim.next_timer()
        if t is not None:
            c['timer'] = [t]
        if extra:
            for k, lst in extra().items():
                c[k] = lst
        if self.w['stall'] > 0:
            c['stall'] = [p for p in c['deliver'] if p.stall == 0]
        if self.fault_budget <= 0:
            c['fault'] = []
        return c

    def step(self, extra=None):
        sim, ds = self.sim, self.ds
        # stalls tick down
        for p in net.stalled(sim):
            p.stall -= 1
        c = self.candidates(extra)
        kinds = [k for k in KINDS if c[k]]
        if not kinds or all(k == 'stall' for k in kinds):
            if net.stalled(sim):
                sim.step += 1
                return True
            return False
        k = kinds[ds.weighted([self.w[k] for k in kinds])]
        sim.step += 1
        if k == 'deliver':
            pipes = c[k]
            i = 0
            if len(pipes) > 1:
                # FIFO with probability fifo_bias, otherwise any
                i = ds.weighted([self.fifo_bias * len(pipes)] + [(1 - self.fifo_bias)] * (len(pipes) - 1))
                if i:
                    sim.nontrivial = True
                sim.probe('interleave-choice')
            p = pipes[i]
            n, bc = net.chunk_size(ds, p, self.sizew)
            if bc != 'all':
                sim.nontrivial = True
                sim.faults['split'] += 1
            elif len(p.bounds) > 1:
                sim.faults['coalesce'] += 1
            if i:
                sim.faults['interleave'] += 1
            sim.sched('d', p.name, bc)
            net.deliver(sim, p, n)
        elif k == 'lose':
            t = c[k][ds.choose(len(c[k]))]
            sim.sched('l', t.name)
            t.do_lose()
        elif k == 'timer':
            pend = bool(c['deliver'])
            if pend:
                sim.nontrivial = True
                sim.faults['timer-first'] += 1
            sim.sched('t', pend)
            sim.fire_timer(c[k][0])
        elif k == 'stall':
            p = c[k][ds.choose(len(c[k]))]
            p.stall = 1 + ds.choose(6)
            sim.fault('stall')
            sim.sched('s', p.name)
        else:
            lst = c[k]
            i = ds.choose(len(lst))
            label, fn = lst[i]
            sim.sched(k, label)
            if k == 'fault':
                sim.nontrivial = True
                self.fault_budget -= 1
            fn()
        return True

    def run(self, max_steps, extra=None, invariant=None):
        while self.sim.step < max_steps:
            if not self.step(extra):
                break
            if invariant:
                invariant()

    def drain(self, max_steps, extra=None, invariant=None, fire_timers=True):
        """Faults off, everything FIFO and whole, until quiescence.  Returns True when
        quiescent within the bound."""
        sim = self.sim
        sim.draining = True
        for p in net.stalled(sim):
            p.stall = 0
        n = 0
        while n < max_steps:
            n += 1
            pipes = net.deliverable(sim)
            if pipes:
                p = pipes[0]
                net.deliver(sim, p, len(p.buf))
            else:
                los = net.losable(sim)
                if los:
                    los[0].do_lose()
                else:
                    ex = extra() if extra else {}
                    acts = ex.get('fire', []) + ex.get('op', [])
                    if acts:
                        acts[0][1]()
                    elif fire_timers and sim.next_timer() is not None:
                        sim.fire_timer()
                    else:
                        return True
            if invariant:
                invariant()
        return False
