"""
Self tests of the machinery (./check selftest [quick|full]):

1. reference codec against artefacts that do not come from this harness: every pinned
   (signature, value, bytes) vector of /repo/tests/test_marshal.py, read by running the
   repository's own test methods with a recording check();
2. determinism: for every claimed check, N run indices are executed in fresh interpreters
   under two different PYTHONHASHSEED values, sequentially and through the 16-worker pool;
   the event-log digests must be identical; a recorded decision list replayed must give
   the same digest as the seeded run.
Exit 0 when everything agrees, 2 otherwise (a self-test failure is a harness error).
"""
import json
import os
import subprocess
import sys
import time

VERIF = os.path.dirname(os.path.dirname(os.path.abspath(__file__)))


def scratch_base():
    from .seams import scratch_base as sb
    return sb()
ALL = ['C04', 'C05', 'C06', 'C07', 'C08', 'C09', 'C10', 'C11', 'C12', 'C13', 'C14', 'C16',
       'C17', 'C20']


def codec_vectors():
    from . import refcodec as rc
    from .seams import REPO
    sys.path.insert(0, REPO)
    import unittest
    import tests.test_marshal as tm
    vectors = []

    def rec_marshal(self, sig, var_list, expected, little_endian=True):
        if not isinstance(var_list, list):
            var_list = [var_list]
        vectors.append((sig, var_list, bytes(expected), little_endian))

    def rec_unmarshal(self, sig, expected_value, encoding):
        vectors.append((sig, [expected_value], bytes(encoding), True))
    n_classes = 0
    for name in dir(tm):
        cls = getattr(tm, name)
        if not (isinstance(cls, type) and issubclass(cls, unittest.TestCase)):
            continue
        if not hasattr(cls, 'check'):
            continue
        import inspect
        params = list(inspect.signature(cls.check).parameters)
        sub = type('Rec' + name, (cls,), {'check': rec_marshal if 'var_list' in params else rec_unmarshal})
        n_classes += 1
        for meth in dir(sub):
            if meth.startswith('test_'):
                t = sub(meth)
                try:
                    getattr(t, meth)()
                except Exception:
                    pass
    ok = bad = 0
    problems = []
    for sig, vals, data, little in vectors:
        try:
            dec, used = rc.decode(sig, data, little, 0)
            if used != len(data):
                raise rc.CodecError('consumed %d of %d' % (used, len(data)))
            again = rc.encode(sig, dec, little, 0)
            if again != data:
                raise rc.CodecError('re-encoding differs')
            ok += 1
        except Exception as e:
            # vectors that are *meant* to be invalid (bad length tests) stay failures of the
            # reference decoder too: they must raise
            bad += 1
            problems.append((sig, data[:24], str(e)))
    return n_classes, len(vectors), ok, problems


def digests(prop, lo, hi, tier='quick'):
    """sequentially, in this process"""
    from . import runner
    os.environ.setdefault('VERIF_SCRATCH', os.path.join(scratch_base(), 'txdbus-sim-%d' % os.getpid()))
    m = runner._import_check(prop)
    out = []
    for i in range(lo, hi):
        seed = runner.run_seed(0, prop, i)
        r = runner.execute(m, tier, seed=seed)
        r2 = runner.execute(m, tier, decisions=r['decisions'])
        out.append((i, r['digest'], r2['digest'], r['violation'][0] if r['violation'] else None))
    import shutil
    shutil.rmtree(os.environ['VERIF_SCRATCH'], ignore_errors=True)
    return out


def _pool_one(args):
    prop, i = args
    from . import runner
    m = runner._import_check(prop)
    r = runner.execute(m, 'quick', seed=runner.run_seed(0, prop, i))
    return (i, r['digest'])


def pool_digests(prop, lo, hi, workers=16):
    import multiprocessing
    from concurrent.futures import ProcessPoolExecutor
    os.environ['VERIF_SCRATCH'] = os.path.join(scratch_base(), 'txdbus-sim-%d' % os.getpid())
    with ProcessPoolExecutor(max_workers=workers,
                             mp_context=multiprocessing.get_context('fork')) as ex:
        out = list(ex.map(_pool_one, [(prop, i) for i in range(lo, hi)], chunksize=5))
    import shutil
    shutil.rmtree(os.environ['VERIF_SCRATCH'], ignore_errors=True)
    return out


def main(argv):
    if argv and argv[0] == '--digests':
        prop, lo, hi = argv[1], int(argv[2]), int(argv[3])
        mode = argv[4] if len(argv) > 4 else 'seq'
        res = digests(prop, lo, hi) if mode == 'seq' else [(i, d, d, None) for i, d in pool_digests(prop, lo, hi)]
        json.dump(res, sys.stdout)
        return 0
    level = argv[0] if argv else 'quick'
    n = 40 if level == 'quick' else 250
    props = [a for a in argv[1:]] or ALL
    rc_ = 0
    t0 = time.time()
    ncls, nvec, ok, problems = codec_vectors()
    print('reference codec: %d recording test classes, %d pinned vectors, %d decode and re-encode '
          'byte-exactly, %d rejected' % (ncls, nvec, ok, len(problems)))
    for p in problems:
        print('   rejected: sig=%r data=%r: %s' % p)
    # the only vectors the reference decoder may reject are the deliberately invalid ones
    if ok < 50 or len(problems) > 3:
        print('SELFTEST FAILURE: reference codec disagrees with the pinned vectors')
        rc_ = 2
    report = {'codec_vectors': nvec, 'codec_ok': ok, 'determinism': {}}
    # fidelity of the transport stub against real sockets and the real reactor
    p = subprocess.run([sys.executable, '-m', 'simdbus.fidelity'], cwd=VERIF, capture_output=True,
                       text=True, timeout=120)
    print(p.stdout.strip().splitlines()[-1] if p.stdout.strip() else 'fidelity: no output')
    for line in p.stdout.splitlines():
        if line.startswith('FAIL'):
            print('   ' + line)
    report['fidelity'] = p.stdout.strip().splitlines()
    if p.returncode != 0:
        print('SELFTEST FAILURE: transport-stub fidelity test failed')
        rc_ = 2
    for prop in props:
        runs = {}
        for label, env, mode in (('hash0', {'PYTHONHASHSEED': '0'}, 'seq'),
                                 ('hash12345', {'PYTHONHASHSEED': '12345'}, 'seq'),
                                 ('pool16', {'PYTHONHASHSEED': '0'}, 'pool')):
            e = dict(os.environ)
            e.update(env)
            p = subprocess.run([sys.executable, os.path.join(VERIF, 'check'), 'selftest', '--digests',
                                prop, '0', str(n), mode], env=e, capture_output=True, text=True,
                               cwd=VERIF, timeout=3600)
            if p.returncode != 0:
                print('SELFTEST FAILURE: %s %s: %s' % (prop, label, p.stderr[-500:]))
                rc_ = 2
                runs[label] = None
                continue
            runs[label] = json.loads(p.stdout)
        if any(v is None for v in runs.values()):
            continue
        base = runs['hash0']
        diverge = 0
        for k in range(len(base)):
            i, d1, d2, v = base[k]
            if d1 != d2:
                diverge += 1
                print('  %s run %d: seeded run and replay of its decisions differ' % (prop, i))
            if runs['hash12345'][k][1] != d1:
                diverge += 1
                print('  %s run %d: digest differs under another PYTHONHASHSEED' % (prop, i))
            if runs['pool16'][k][1] != d1:
                diverge += 1
                print('  %s run %d: digest differs between sequential and 16-worker execution' % (prop, i))
        viol = sum(1 for x in base if x[3])
        report['determinism'][prop] = {'runs': len(base), 'divergent': diverge}
        print('%s: %d runs x {hashseed 0, hashseed 12345, 16-worker pool, replay}: %d divergent%s'
              % (prop, len(base), diverge, ('; %d runs end in a violation' % viol) if viol else ''))
        if diverge:
            rc_ = 2
    report['wall_s'] = round(time.time() - t0, 1)
    with open(os.path.join(VERIF, 'evidence', 'selftest.json'), 'w') as f:
        json.dump(report, f, indent=1)
    print('selftest %s in %.1fs' % ('OK' if rc_ == 0 else 'FAILED', time.time() - t0))
    return rc_
