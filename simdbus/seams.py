"""
Seams: every ambient source of nondeterminism txdbus touches is rebound here for the
duration of a run and restored afterwards.  No change to /repo is involved: all of these
are module-level references or class attributes.
"""
import gc
import os
import sys
import types

REPO = os.environ.get('VERIF_REPO', '/repo')
if REPO not in sys.path:
    sys.path.insert(0, REPO)

from twisted.python import log as txlog  # noqa: E402

import txdbus.authentication as t_auth  # noqa: E402
import txdbus.bus as t_bus  # noqa: E402
import txdbus.client as t_client  # noqa: E402
import txdbus.interface as t_iface  # noqa: E402
import txdbus.message as t_msg  # noqa: E402
import txdbus.protocol as t_proto  # noqa: E402

# import-time snapshot of the interface cache (Properties, org.freedesktop.DBus, ...)
KNOWN_AT_IMPORT = dict(t_iface.DBusInterface.knownInterfaces)


class _OsShim(types.ModuleType):
    """`os` as seen by one txdbus module: everything real except urandom."""

    def __init__(self, seams):
        types.ModuleType.__init__(self, 'os')
        self.__dict__.update(os.__dict__)
        self._seams = seams

    def urandom(self, n):
        return self._seams.urandom(n)


class _TimeShim(types.ModuleType):
    def __init__(self, seams):
        types.ModuleType.__init__(self, 'time')
        self._seams = seams

    def time(self):
        return self._seams.wallclock()

    def sleep(self, s):
        self._seams.slept += s


class Seams:
    def __init__(self):
        self.sim = None
        self.installed = False
        self.saved = {}
        self.errors = []       # twisted log error events during the run
        self.slept = 0.0
        self._rand = None
        self.user = 'simuser'

    # -- sources ------------------------------------------------------------------------
    def urandom(self, n):
        if self._rand is not None:
            return self._rand(n)
        return self.sim.ds.bytes(n)

    def wallclock(self):
        return 1.7e9 + (self.sim.now if self.sim else 0.0)

    # -- install / restore --------------------------------------------------------------
    def install(self, sim, reactor):
        assert not self.installed
        self.sim = sim
        self.errors = []
        self.saved = {
            'reactor': t_client.reactor,
            'serial': t_msg.DBusMessage._nextSerial,
            'known': t_iface.DBusInterface.knownInterfaces,
            'bus_os': t_bus.os,
            'auth_os': t_auth.os,
            'auth_time': t_auth.time,
            'is_linux': t_proto._is_linux,
            'ctx': t_auth.BusCookieAuthenticator.cookieContext,
            'gc': gc.isenabled(),
        }
        t_client.reactor = reactor
        t_bus.os = _OsShim(self)
        t_auth.os = _OsShim(self)
        t_auth.time = _TimeShim(self)
        t_auth.BusCookieAuthenticator.cookieContext = 'org_twisteddbus_ctxSIM'
        t_iface.DBusInterface.knownInterfaces = dict(KNOWN_AT_IMPORT)
        gc.disable()
        txlog.addObserver(self._observe)
        self.installed = True

    def restore(self):
        if not self.installed:
            return
        txlog.removeObserver(self._observe)
        t_client.reactor = self.saved['reactor']
        t_msg.DBusMessage._nextSerial = self.saved['serial']
        t_iface.DBusInterface.knownInterfaces = self.saved['known']
        t_bus.os = self.saved['bus_os']
        t_auth.os = self.saved['auth_os']
        t_auth.time = self.saved['auth_time']
        t_proto._is_linux = self.saved['is_linux']
        t_auth.BusCookieAuthenticator.cookieContext = self.saved['ctx']
        if self.saved['gc']:
            gc.enable()
        self.installed = False
        self.sim = None

    def _observe(self, ev):
        if ev.get('isError'):
            f = ev.get('failure')
            self.errors.append((type(f.value).__name__ if f is not None else 'error',
                                f))

    def set_linux(self, flag):
        t_proto._is_linux = flag

    # -- per-node process globals -------------------------------------------------------
    def swap_in(self, node):
        t_msg.DBusMessage._nextSerial = node.serial
        if node.known is not None:
            t_iface.DBusInterface.knownInterfaces = node.known

    def swap_out(self, node):
        node.serial = t_msg.DBusMessage._nextSerial
