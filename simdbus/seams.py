"""
Seams: every ambient source of nondeterminism txdbus touches is rebound here for the
duration of a run and restored afterwards.  No change to /repo is involved: all of these
are module-level references or class attributes.
"""
import gc
import os
import sys
import types

REPO = os.environ.get('VERIF_REPO', '/repo')
if REPO not in sys.path:
    sys.path.insert(0, REPO)

from twisted.python import log as txlog  # noqa: E402

import txdbus.authentication as t_auth  # noqa: E402
import txdbus.bus as t_bus  # noqa: E402
import txdbus.client as t_client  # noqa: E402
import txdbus.interface as t_iface  # noqa: E402
import txdbus.message as t_msg  # noqa: E402
import txdbus.protocol as t_proto  # noqa: E402

# Twisted's log beginner otherwise buffers events and prints failures to stderr
from twisted.logger import globalLogBeginner  # noqa: E402
try:
    globalLogBeginner.beginLoggingTo([lambda e: None], redirectStandardIO=False,
                                     discardBuffer=True)
except Exception:
    pass

def scratch_base():
    """private scratch directory root: tmpfs when there is one, the temp dir otherwise; removed
    by whoever created it"""
    import tempfile
    root = '/dev/shm' if os.path.isdir('/dev/shm') and os.access('/dev/shm', os.W_OK) else tempfile.gettempdir()
    return root


# import-time snapshot of the interface cache (Properties, org.freedesktop.DBus, ...)
KNOWN_AT_IMPORT = dict(getattr(t_iface.DBusInterface, 'knownInterfaces', {}))


class _OsShim(types.ModuleType):
    """`os` as seen by one txdbus module: everything real except urandom."""

    def __init__(self, seams):
        types.ModuleType.__init__(self, 'os')
        self.__dict__.update(os.__dict__)
        self._seams = seams
        self.urandom = seams.urandom      # instance attribute: must shadow the copied one


class _TimeShim(types.ModuleType):
    def __init__(self, seams):
        types.ModuleType.__init__(self, 'time')
        self._seams = seams

    def time(self):
        return self._seams.wallclock()

    def sleep(self, s):
        self._seams.slept += s


class Seams:
    def __init__(self):
        self.sim = None
        self.installed = False
        self.saved = {}
        self.errors = []       # twisted log error events during the run
        self.slept = 0.0
        self._rand = None
        self.user = 'simuser'
        self._home = None

    # -- sources ------------------------------------------------------------------------
    def urandom(self, n):
        if self._rand is not None:
            return self._rand(n)
        return self.sim.ds.bytes(n)

    def wallclock(self):
        return 1.7e9 + (self.sim.now if self.sim else 0.0)

    # -- install / restore --------------------------------------------------------------
    def install(self, sim, reactor):
        """Every rebinding is guarded: an internal name that a refactoring removed is simply not
        patched (the seam it served is then reported by the determinism self-test, not by a
        crash of every check)."""
        assert not self.installed
        self.sim = sim
        self.errors = []
        cookie = getattr(t_auth, 'BusCookieAuthenticator', None)
        self.saved = {
            'reactor': getattr(t_client, 'reactor', None),
            'serial': getattr(t_msg.DBusMessage, '_nextSerial', None),
            'known': getattr(t_iface.DBusInterface, 'knownInterfaces', None),
            'bus_os': getattr(t_bus, 'os', None),
            'auth_os': getattr(t_auth, 'os', None),
            'auth_time': getattr(t_auth, 'time', None),
            'is_linux': getattr(t_proto, '_is_linux', None),
            'ctx': getattr(cookie, 'cookieContext', None),
            'gc': gc.isenabled(),
            'gc_defaults': None,
        }
        t_client.reactor = reactor
        # any other txdbus module that has come to use the global reactor gets the simulated one too
        self.saved['other_reactors'] = []
        import sys as _sys
        for name, mod in sorted(_sys.modules.items()):
            if name.startswith('txdbus.') and mod is not None and mod is not t_client \
                    and getattr(mod, 'reactor', None) is not None:
                self.saved['other_reactors'].append((mod, mod.reactor))
                mod.reactor = reactor
        t_bus.os = _OsShim(self)
        t_auth.os = _OsShim(self)
        t_auth.time = _TimeShim(self)
        if cookie is not None:
            cookie.cookieContext = 'org_twisteddbus_ctxSIM'
            try:
                self.saved['gc_defaults'] = (cookie._get_cookies.__defaults__,
                                             cookie._create_cookie.__defaults__)
                if cookie._get_cookies.__defaults__:
                    cookie._get_cookies.__defaults__ = (self.wallclock,)
                if cookie._create_cookie.__defaults__:
                    cookie._create_cookie.__defaults__ = (self.wallclock,)
            except AttributeError:
                self.saved['gc_defaults'] = None
        if self.saved['known'] is not None:
            t_iface.DBusInterface.knownInterfaces = dict(KNOWN_AT_IMPORT)
        gc.disable()
        txlog.addObserver(self._observe)
        self.installed = True

    def restore(self):
        if not self.installed:
            return
        self._restore_home()
        txlog.removeObserver(self._observe)
        t_client.reactor = self.saved['reactor']
        for mod, r in self.saved.get('other_reactors', []):
            mod.reactor = r
        if self.saved['serial'] is not None:
            t_msg.DBusMessage._nextSerial = self.saved['serial']
        if self.saved['known'] is not None:
            t_iface.DBusInterface.knownInterfaces = self.saved['known']
        t_bus.os = self.saved['bus_os']
        t_auth.os = self.saved['auth_os']
        t_auth.time = self.saved['auth_time']
        if self.saved['is_linux'] is not None:
            t_proto._is_linux = self.saved['is_linux']
        cookie = getattr(t_auth, 'BusCookieAuthenticator', None)
        if cookie is not None:
            cookie.cookieContext = self.saved['ctx']
            if self.saved['gc_defaults']:
                (cookie._get_cookies.__defaults__,
                 cookie._create_cookie.__defaults__) = self.saved['gc_defaults']
        if self.saved['gc']:
            gc.enable()
        self.installed = False
        self.sim = None

    def _observe(self, ev):
        if ev.get('isError'):
            f = ev.get('failure')
            self.errors.append((type(f.value).__name__ if f is not None else 'error',
                                f))

    def set_linux(self, flag):
        t_proto._is_linux = flag

    # -- synthetic user with a scratch home directory (real files, private) --------------
    def home(self, nonascii=False):
        """Create (once per run) the scratch home of the synthetic user and point HOME,
        getpass and pwd at it.  Returns the path."""
        if self._home is not None:
            return self._home
        import getpass
        import pwd
        import shutil
        base = os.environ.get('VERIF_SCRATCH') or os.path.join(scratch_base(), 'txdbus-sim-%d' % os.getppid())
        # (a home directory need not have an ASCII name)
        path = os.path.join(base, ('j\u00f6rg-w%d' if nonascii else 'w%d') % os.getpid())
        shutil.rmtree(path, ignore_errors=True)
        os.makedirs(path, 0o700)
        self._home = path
        self.saved.update(HOME=os.environ.get('HOME'), getpass=t_auth.getpass,
                          getpwnam=pwd.getpwnam, getpwuid=pwd.getpwuid)
        os.environ['HOME'] = path
        user = self.user
        ent = pwd.struct_passwd((user, 'x', os.geteuid(), os.getegid(), 'sim', path, '/bin/sh'))

        class _GP:
            @staticmethod
            def getuser():
                return user

        def getpwnam(name):
            if name == user:
                return ent
            raise KeyError(name)

        def getpwuid(uid):
            if uid in (os.geteuid(), 1000):
                return ent
            raise KeyError(uid)
        t_auth.getpass = _GP
        pwd.getpwnam = getpwnam
        pwd.getpwuid = getpwuid
        return path

    def keyring(self, create=True, mode=0o700):
        d = os.path.join(self.home(), '.dbus-keyrings')
        if create and not os.path.isdir(d):
            os.mkdir(d, mode)
            os.chmod(d, mode)
        return d

    def _restore_home(self):
        if self._home is None:
            return
        import pwd
        import shutil
        if self.saved.get('HOME') is None:
            os.environ.pop('HOME', None)
        else:
            os.environ['HOME'] = self.saved['HOME']
        t_auth.getpass = self.saved['getpass']
        pwd.getpwnam = self.saved['getpwnam']
        pwd.getpwuid = self.saved['getpwuid']
        shutil.rmtree(self._home, ignore_errors=True)
        self._home = None

    # -- per-node process globals -------------------------------------------------------
    def swap_in(self, node):
        if self.saved.get('serial') is not None:
            t_msg.DBusMessage._nextSerial = node.serial
        if node.known is not None and self.saved.get('known') is not None:
            t_iface.DBusInterface.knownInterfaces = node.known

    def swap_out(self, node):
        if self.saved.get('serial') is not None:
            node.serial = t_msg.DBusMessage._nextSerial
