"""
Fidelity of the network stub: the assumptions simdbus/net.py makes about Twisted's stream
transports are replayed here over REAL UNIX socketpairs with the REAL Twisted reactor (no
network is needed), and a real txdbus client is attached to the real txdbus bus over a real
socket.  Run in its own process:  /venv/bin/python -m simdbus.fidelity   (or ./check selftest).

Checked:
 F1  an exception escaping dataReceived costs that side connectionLost(Failure(exc)) and the
     peer a clean/lost connection; the reactor survives;
 F2  after loseConnection() no further dataReceived is delivered to the closer, bytes written
     before it reach the peer, the peer's connectionLost comes after it read them, the
     closer's own connectionLost is delivered too, each exactly once;
 F3  write() after loseConnection() but before the connection is gone still reaches the peer;
 F4  descriptors queued with sendFileDescriptor() arrive via fileDescriptorReceived() before
     the dataReceived() of the bytes they were sent with, in order;
 F6  abortConnection() does not set `disconnecting`, the aborting side gets no further
     dataReceived and its connectionLost(ConnectionAborted) comes from a later reactor iteration;
     callLater() refuses a negative delay;
 F5  a real DBusClientConnection attaches to the real Bus over a UNIX socketpair (EXTERNAL or
     ANONYMOUS, NEGOTIATE_UNIX_FD answered with ERROR), says Hello, acquires a name and calls
     GetNameOwner - the same conversation the simulation runs.
"""
import os
import socket
import sys

HERE = os.path.dirname(os.path.dirname(os.path.abspath(__file__)))
sys.path.insert(0, HERE)
from simdbus.seams import REPO  # noqa: E402,F401  (puts /repo on sys.path)

from twisted.internet import defer, protocol, reactor  # noqa: E402
from twisted.internet import interfaces as tiface  # noqa: E402
from zope.interface import implementer  # noqa: E402

RESULTS = []


def note(name, ok, detail=''):
    RESULTS.append((name, bool(ok), detail))


@implementer(tiface.IFileDescriptorReceiver)
class Rec(protocol.Protocol):
    def __init__(self, name, log):
        self.name = name
        self.log = log
        self.raise_on = None
        self.close_on = None

    def connectionMade(self):
        self.log.append((self.name, 'made'))

    def fileDescriptorReceived(self, fd):
        self.log.append((self.name, 'fd'))
        os.close(fd)

    def dataReceived(self, data):
        self.log.append((self.name, 'data', bytes(data)))
        if self.raise_on and self.raise_on in data:
            raise RuntimeError('boom')
        if self.close_on and self.close_on in data:
            self.transport.loseConnection()
            self.transport.write(b'after-close')

    def connectionLost(self, reason):
        self.log.append((self.name, 'lost', reason.type.__name__))


def pair(a, b):
    s1, s2 = socket.socketpair(socket.AF_UNIX, socket.SOCK_STREAM)
    s1.setblocking(False)
    s2.setblocking(False)
    fa = protocol.Factory.forProtocol(lambda: a)
    fb = protocol.Factory.forProtocol(lambda: b)
    reactor.adoptStreamConnection(s1.fileno(), socket.AF_UNIX, fa)
    reactor.adoptStreamConnection(s2.fileno(), socket.AF_UNIX, fb)
    s1.close()
    s2.close()


def sleep(t):
    d = defer.Deferred()
    reactor.callLater(t, d.callback, None)
    return d


@defer.inlineCallbacks
def scenario():
    # ---- F1
    log = []
    a, b = Rec('a', log), Rec('b', log)
    b.raise_on = b'X'
    pair(a, b)
    yield sleep(0.05)
    a.transport.write(b'hello X world')
    yield sleep(0.5)
    lost_b = [e for e in log if e[0] == 'b' and e[1] == 'lost']
    lost_a = [e for e in log if e[0] == 'a' and e[1] == 'lost']
    note('F1 exception in dataReceived -> connectionLost(Failure(exc)) once',
         len(lost_b) == 1 and lost_b[0][2] == 'RuntimeError', repr(lost_b))
    note('F1 peer of the failed side loses the connection once', len(lost_a) == 1, repr(log))
    # ---- F2 / F3
    log = []
    a, b = Rec('a', log), Rec('b', log)
    b.close_on = b'CLOSE'
    pair(a, b)
    yield sleep(0.05)
    a.transport.write(b'one CLOSE two')
    yield sleep(0.05)
    a.transport.write(b'late')           # b stopped reading: must never see this
    yield sleep(0.5)
    b_data = b''.join(e[2] for e in log if e[0] == 'b' and e[1] == 'data')
    a_data = b''.join(e[2] for e in log if e[0] == 'a' and e[1] == 'data')
    note('F2 closer gets no dataReceived after loseConnection()', b'late' not in b_data, repr(b_data))
    note('F3 write() after loseConnection() still reaches the peer', a_data == b'after-close', repr(a_data))
    note('F2 both sides get connectionLost exactly once',
         sum(1 for e in log if e[1] == 'lost' and e[0] == 'a') == 1 and
         sum(1 for e in log if e[1] == 'lost' and e[0] == 'b') == 1, repr([e for e in log if e[1] == 'lost']))
    ia = [i for i, e in enumerate(log) if e[0] == 'a' and e[1] == 'data']
    la = [i for i, e in enumerate(log) if e[0] == 'a' and e[1] == 'lost']
    note('F2 peer reads what was written before it sees the loss', ia and la and max(ia) < la[0])
    # ---- F4
    log = []
    a, b = Rec('a', log), Rec('b', log)
    pair(a, b)
    yield sleep(0.05)
    r, w = os.pipe()
    r2, w2 = os.pipe()
    a.transport.sendFileDescriptor(r)
    a.transport.sendFileDescriptor(r2)
    a.transport.write(b'with-two-fds')
    yield sleep(0.4)
    for fd in (r, w, r2, w2):
        os.close(fd)
    # Twisted sends one descriptor per byte from the start of the write: descriptor k must
    # arrive no later than the read that contains byte k
    nbytes = 0
    nfd = 0
    ok4 = True
    for e in log:
        if e[0] != 'b':
            continue
        if e[1] == 'fd':
            if nbytes > nfd:
                ok4 = False
            nfd += 1
        elif e[1] == 'data':
            nbytes += len(e[2])
    seq = [(e[1], len(e[2]) if e[1] == 'data' else None) for e in log if e[0] == 'b' and e[1] in ('fd', 'data')]
    note('F4 descriptor k arrives no later than the read containing byte k of its write', ok4 and nfd == 2,
         repr(seq))
    a.transport.loseConnection()
    # ---- F6
    log = []
    a, b = Rec('a', log), Rec('b', log)
    pair(a, b)
    yield sleep(0.05)
    b.transport.abortConnection()
    flag = getattr(b.transport, 'disconnecting', None)
    lost_now = [e for e in log if e[0] == 'b' and e[1] == 'lost']
    a.transport.write(b'after-abort')
    yield sleep(0.3)
    lost_b = [e for e in log if e[0] == 'b' and e[1] == 'lost']
    data_b = [e for e in log if e[0] == 'b' and e[1] == 'data']
    note('F6 abortConnection() leaves `disconnecting` unset', not flag, repr(flag))
    note('F6 connectionLost(ConnectionAborted) comes later, once; nothing is read after the abort',
         not lost_now and len(lost_b) == 1 and lost_b[0][2] == 'ConnectionAborted' and not data_b,
         repr((lost_now, lost_b, data_b)))
    try:
        reactor.callLater(-1, lambda: None)
        note('F6 callLater refuses a negative delay', False)
    except AssertionError:
        note('F6 callLater refuses a negative delay', True)
    # ---- F5
    from txdbus import bus as t_bus, client as t_client
    import txdbus.protocol as t_proto
    the_bus = t_bus.Bus()

    class BF(protocol.Factory):
        protocol = t_bus.BusProtocol
        bus = the_bus
    cf = t_client.DBusClientFactory()
    s1, s2 = socket.socketpair(socket.AF_UNIX, socket.SOCK_STREAM)
    s1.setblocking(False)
    s2.setblocking(False)
    reactor.adoptStreamConnection(s2.fileno(), socket.AF_UNIX, BF())
    reactor.adoptStreamConnection(s1.fileno(), socket.AF_UNIX, cf)
    s1.close()
    s2.close()
    try:
        conn = yield cf.getConnection().addTimeout(3, reactor)
        note('F5 real client attaches to the real bus over a real UNIX socket', conn.busName == ':1.1',
             repr(conn.busName))
        r = yield conn.requestBusName('org.sim.fidelity').addTimeout(3, reactor)
        o = yield conn.getNameOwner('org.sim.fidelity').addTimeout(3, reactor)
        note('F5 RequestName / GetNameOwner through the real bus', r == 1 and o == ':1.1', repr((r, o)))
        conn.disconnect()
        yield sleep(0.05)
        note('F5 the bus forgets the connection on disconnect', ':1.1' not in the_bus.clients)
    except Exception as e:
        note('F5 real client attaches to the real bus over a real UNIX socket', False, repr(e))


def main():
    d = scenario()
    d.addErrback(lambda f: note('scenario crashed', False, f.getTraceback()[-600:]))
    d.addBoth(lambda _: reactor.stop())
    reactor.callLater(20, lambda: (note('timeout', False), reactor.stop()))
    reactor.run()
    bad = 0
    for name, ok, detail in RESULTS:
        print('%-4s %s %s' % ('ok' if ok else 'FAIL', name, '' if ok else detail))
        bad += 0 if ok else 1
    print('fidelity: %d checks, %d failed' % (len(RESULTS), bad))
    return 0 if not bad and RESULTS else 2


if __name__ == '__main__':
    sys.exit(main())
