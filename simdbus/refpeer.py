"""
Spec-derived SASL endpoints (DBus authentication protocol), independent of txdbus.

RefSaslServer : a conforming server accepting a chosen subset of mechanisms.
RefSaslClient : conforming clients for EXTERNAL / DBUS_COOKIE_SHA1 / ANONYMOUS (+ variants
                that present a wrong cookie hash).
"""
import binascii
import hashlib
import os

from . import refcodec as rc
from .peers import DumbPeer

MECHS = (b'EXTERNAL', b'DBUS_COOKIE_SHA1', b'ANONYMOUS')


def hexs(b):
    return binascii.hexlify(b)


class RefSaslServer(DumbPeer):
    """States per the specification: WaitingForAuth, WaitingForData, WaitingForBegin.

    accept      : set of mechanism names this server accepts
    agree_fd    : answer to NEGOTIATE_UNIX_FD (True: AGREE_UNIX_FD, False: ERROR)
    keyring     : directory in which DBUS_COOKIE_SHA1 cookies are written
    urandom     : deterministic byte source
    after BEGIN : reference-decodes frames; answers Hello when hello is not None
    """

    def __init__(self, accept, agree_fd=True, keyring=None, urandom=None, user=b'simuser',
                 hello=':1.42', guid=b'00112233445566778899aabbccddeeff', external_needs_data=True):
        DumbPeer.__init__(self, 'refserver')
        self.accept = set(accept)
        self.agree_fd = agree_fd
        self.keyring = keyring
        self.urandom = urandom or (lambda n: b'\x07' * n)
        self.user = user
        self.hello = hello
        self.guid = guid
        self.external_needs_data = external_needs_data
        self.messy_keyring = False
        self.cookie_context = b'org_sim_refserver'
        self.state = 'auth'
        self.mech = None
        self.first = True
        self.buf = b''
        self.lines = []
        self.authed = False
        self.begin_seen = False
        self.splitter = rc.FrameSplitter()
        self.messages = []
        self.serial = 500
        self.cookie = None
        self.challenge = None
        self.rejects = 0
        self.fd_negotiated = None
        self.on_message = None

    def w(self, line):
        self.transport.write(line + b'\r\n')

    def reject(self):
        self.rejects += 1
        self.state = 'auth'
        self.mech = None
        self.w(b'REJECTED ' + b' '.join(m for m in MECHS if m in self.accept))

    def dataReceived(self, data):
        self.received += data
        if self.authed:
            return self.binary(data)
        if self.first:
            if data[:1] != b'\0':
                self.transport.loseConnection()
                return
            self.first = False
            data = data[1:]
        self.buf += data
        while not self.authed and b'\r\n' in self.buf:
            line, self.buf = self.buf.split(b'\r\n', 1)
            self.lines.append(line)
            self.line(line)
            if self.transport.disconnecting:
                return
        if self.authed and self.buf:
            rest, self.buf = self.buf, b''
            self.binary(rest)

    def line(self, line):
        cmd, _, arg = line.partition(b' ')
        st = self.state
        if cmd == b'AUTH' and st == 'auth':
            parts = arg.split()
            if not parts or parts[0] not in self.accept:
                return self.reject()
            self.mech = parts[0]
            ir = parts[1] if len(parts) > 1 else None
            return self.mech_step(ir, first=True)
        if cmd == b'DATA' and st == 'data':
            return self.mech_step(arg.strip() or b'', first=False)
        if cmd == b'BEGIN':
            if st == 'begin':
                self.authed = True
                self.begin_seen = True
                return
            self.transport.loseConnection()
            return
        if cmd in (b'CANCEL', b'ERROR') and st in ('data', 'begin'):
            return self.reject()
        if cmd == b'ERROR' and st == 'auth':
            return self.reject()
        if cmd == b'NEGOTIATE_UNIX_FD' and st == 'begin':
            self.fd_negotiated = self.agree_fd
            return self.w(b'AGREE_UNIX_FD' if self.agree_fd else b'ERROR "fd passing not supported"')
        self.w(b'ERROR "unexpected command"')

    def mech_step(self, resp, first):
        m = self.mech
        if m == b'ANONYMOUS':
            self.state = 'begin'
            return self.w(b'OK ' + self.guid)
        if m == b'EXTERNAL':
            if first and resp is None and self.external_needs_data:
                self.state = 'data'
                return self.w(b'DATA')
            self.state = 'begin'
            return self.w(b'OK ' + self.guid)
        if m == b'DBUS_COOKIE_SHA1':
            if first:
                try:
                    user = binascii.unhexlify(resp or b'')
                except Exception:
                    return self.reject()
                if user != self.user or self.keyring is None:
                    return self.reject()
                self.cookie = hexs(self.urandom(24))
                ctx = self.cookie_context
                with open(os.path.join(self.keyring, ctx.decode()), 'wb') as f:
                    # a keyring file as found in the wild: other cookies, a blank line and a
                    # truncated line before the entry the challenge refers to
                    if self.messy_keyring:
                        f.write(b'3 1699999990 ' + hexs(b'o' * 24) + b'\n')
                        f.write(b'\n')
                        f.write(b'5 1699999995\n')
                    f.write(b'7 1700000000 ' + self.cookie + b'\n')
                    if self.messy_keyring:
                        f.write(b'9 1700000005 ' + hexs(b'n' * 24) + b'\n')
                self.challenge = hexs(self.urandom(16))
                self.state = 'data'
                return self.w(b'DATA ' + hexs(ctx + b' 7 ' + self.challenge))
            try:
                cchal, chash = binascii.unhexlify(resp).split()
            except Exception:
                return self.reject()
            want = hexs(hashlib.sha1(self.challenge + b':' + cchal + b':' + self.cookie).digest())
            if chash == want:
                self.state = 'begin'
                return self.w(b'OK ' + self.guid)
            return self.reject()
        return self.reject()

    def binary(self, data):
        for frame in self.splitter.feed(data):
            try:
                m = rc.decode_message(frame)
            except rc.CodecError as e:
                self.messages.append(('bad', str(e), frame))
                continue
            self.messages.append(m)
            if self.on_message and self.on_message(m):
                continue
            if (self.hello is not None and m.mtype == rc.METHOD_CALL
                    and m.fields.get(rc.F_MEMBER) == 'Hello'):
                self.serial += 1
                r = rc.Msg(rc.METHOD_RETURN, self.serial,
                           {rc.F_REPLY_SERIAL: m.serial, rc.F_DESTINATION: self.hello,
                            rc.F_SENDER: 'org.freedesktop.DBus'}, 's', [self.hello])
                self.transport.write(r.encode())


class RefSaslClient(DumbPeer):
    """A conforming client that tries the given mechanisms in order.

    kind: 'EXTERNAL' | 'EXTERNAL-ir' (initial response = hex uid) | 'COOKIE' |
          'COOKIE-wrong-hash' | 'COOKIE-stale' | 'ANONYMOUS'
    After OK it sends BEGIN followed (optionally in the same write) by `after_begin`."""

    def __init__(self, kind, keyring=None, user=b'simuser', uid=b'1000', after_begin=b'',
                 urandom=None, pipeline=False):
        DumbPeer.__init__(self, 'refclient')
        self.kind = kind
        self.keyring = keyring
        self.user = user
        self.uid = uid
        self.after_begin = after_begin
        self.urandom = urandom or (lambda n: b'\x05' * n)
        self.pipeline = pipeline
        self.buf = b''
        self.lines = []
        self.ok = False
        self.rejected = 0
        self.begun = False
        self.sent_lines = []
        self.cookie_used = None
        self.cancel_with = b'CANCEL'
        self.first_match = False     # which line wins when a keyring lists an id twice

    def w(self, line):
        self.sent_lines.append(line)
        self.transport.write(line + b'\r\n')

    def makeConnection(self, transport):
        DumbPeer.makeConnection(self, transport)
        self.transport.write(b'\0')
        k = self.kind
        if k == 'EXTERNAL':
            self.w(b'AUTH EXTERNAL')
        elif k == 'EXTERNAL-ir':
            self.w(b'AUTH EXTERNAL ' + hexs(self.uid))
        elif k.startswith('COOKIE'):
            self.w(b'AUTH DBUS_COOKIE_SHA1 ' + hexs(self.user))
        else:
            self.w(b'AUTH ANONYMOUS ' + hexs(b'refclient'))

    def dataReceived(self, data):
        self.received += data
        if self.begun:
            return
        self.buf += data
        while b'\r\n' in self.buf and not self.begun:
            line, self.buf = self.buf.split(b'\r\n', 1)
            self.lines.append(line)
            self.line(line)

    def line(self, line):
        cmd, _, arg = line.partition(b' ')
        if cmd == b'OK':
            self.ok = True
            self.begun = True
            self.sent_lines.append(b'BEGIN')
            self.transport.write(b'BEGIN\r\n' + self.after_begin)
        elif cmd == b'REJECTED':
            self.rejected += 1
        elif cmd == b'DATA':
            if self.kind.startswith('EXTERNAL'):
                self.w(b'DATA ' + hexs(self.uid))
            elif self.kind == 'COOKIE-cancel':
                return self.w(self.cancel_with)
            elif self.kind == 'COOKIE-silent':
                return None          # got the challenge, never answers
            elif self.kind.startswith('COOKIE'):
                try:
                    ctx, cid, chal = binascii.unhexlify(arg.strip()).split()
                    cookie = None
                    with open(os.path.join(self.keyring, ctx.decode('ascii')), 'rb') as f:
                        for ln in f:
                            a, b, c = ln.split()
                            if a == cid and not (self.first_match and cookie is not None):
                                cookie = c
                    if cookie is None:
                        raise KeyError(cid)
                except Exception as e:
                    return self.w(b'ERROR "cookie lookup failed"')
                self.cookie_used = cookie
                if self.kind == 'COOKIE-stale':
                    cookie = hexs(b'x' * 24)
                cchal = hexs(self.urandom(16))
                h = hexs(hashlib.sha1(chal + b':' + cchal + b':' + cookie).digest())
                if self.kind == 'COOKIE-wrong-hash':
                    h = hexs(hashlib.sha1(b'nope' + h).digest())
                self.w(b'DATA ' + hexs(cchal + b' ' + h))
            else:
                self.w(b'ERROR "no data expected"')
        elif cmd == b'ERROR':
            self.w(b'CANCEL')
