"""
Reference DBus codec, written from the specification (not from txdbus) over explicitly
typed values.  Used by every scripted peer to speak, and by every oracle to read what
txdbus wrote.

Typed values:
    basic types  -> int / bool / float / str
    array        -> list of element values (dict-entry arrays: list of (key, value))
    struct       -> tuple
    variant      -> V(signature, value)
    unix fd 'h'  -> int (index into the out-of-band descriptor list)
"""
import struct

ALIGN = {'y': 1, 'b': 4, 'n': 2, 'q': 2, 'i': 4, 'u': 4, 'x': 8, 't': 8, 'd': 8,
         's': 4, 'o': 4, 'g': 1, 'a': 4, '(': 8, '{': 8, 'v': 1, 'h': 4}
FIXED = {'y': 'B', 'n': 'h', 'q': 'H', 'i': 'i', 'u': 'I', 'x': 'q', 't': 'Q',
         'd': 'd', 'h': 'I'}

METHOD_CALL, METHOD_RETURN, ERROR, SIGNAL = 1, 2, 3, 4
F_PATH, F_INTERFACE, F_MEMBER, F_ERROR_NAME, F_REPLY_SERIAL = 1, 2, 3, 4, 5
F_DESTINATION, F_SENDER, F_SIGNATURE, F_UNIX_FDS = 6, 7, 8, 9
FIELD_SIG = {1: 'o', 2: 's', 3: 's', 4: 's', 5: 'u', 6: 's', 7: 's', 8: 'g', 9: 'u'}
FIELD_NAME = {1: 'path', 2: 'interface', 3: 'member', 4: 'error_name',
              5: 'reply_serial', 6: 'destination', 7: 'sender', 8: 'signature',
              9: 'unix_fds'}


class CodecError(Exception):
    pass


class V:
    """a variant: explicit signature + typed value"""
    __slots__ = ('sig', 'value')

    def __init__(self, sig, value):
        self.sig = sig
        self.value = value

    def __repr__(self):
        return 'V(%r, %r)' % (self.sig, self.value)

    def __eq__(self, o):
        return isinstance(o, V) and o.sig == self.sig and o.value == self.value

    def __hash__(self):
        return hash(self.sig)


# ---------------------------------------------------------------------------------------
# signatures
def split_sig(sig):
    """complete types of a signature, by the grammar"""
    out = []
    i = 0
    while i < len(sig):
        j = _end_of_type(sig, i)
        out.append(sig[i:j])
        i = j
    return out


def _end_of_type(sig, i):
    if i >= len(sig):
        raise CodecError('truncated signature')
    c = sig[i]
    if c == 'a':
        return _end_of_type(sig, i + 1)
    if c in '({':
        close = ')' if c == '(' else '}'
        j = i + 1
        while True:
            if j >= len(sig):
                raise CodecError('unterminated container')
            if sig[j] == close:
                return j + 1
            j = _end_of_type(sig, j)
    if c in ALIGN:
        return i + 1
    raise CodecError('bad type code %r' % c)


# ---------------------------------------------------------------------------------------
# encoder
class _Enc:
    def __init__(self, little, offset):
        self.e = '<' if little else '>'
        self.buf = bytearray()
        self.off0 = offset

    def pos(self):
        return self.off0 + len(self.buf)

    def align(self, a):
        while self.pos() % a:
            self.buf.append(0)

    def put(self, t, v):
        c = t[0]
        self.align(ALIGN[c])
        if c in FIXED:
            self.buf += struct.pack(self.e + FIXED[c], v)
        elif c == 'b':
            self.buf += struct.pack(self.e + 'I', 1 if v else 0)
        elif c in 'so':
            b = v.encode('utf-8') if isinstance(v, str) else bytes(v)
            self.buf += struct.pack(self.e + 'I', len(b)) + b + b'\0'
        elif c == 'g':
            b = v.encode('ascii')
            self.buf += struct.pack('B', len(b)) + b + b'\0'
        elif c == 'a':
            et = t[1:]
            lenpos = len(self.buf)
            self.buf += b'\0\0\0\0'
            self.align(ALIGN[et[0]])
            start = len(self.buf)
            for item in v:
                self.put(et, item)
            struct.pack_into(self.e + 'I', self.buf, lenpos, len(self.buf) - start)
        elif c in '({':
            self.align(8)
            for st, sv in zip(split_sig(t[1:-1]), v):
                self.put(st, sv)
        elif c == 'v':
            self.put('g', v.sig)
            self.put(v.sig, v.value)
        else:
            raise CodecError('cannot encode %r' % t)


def encode(sig, values, little=True, offset=0):
    e = _Enc(little, offset)
    for t, v in zip(split_sig(sig), values):
        e.put(t, v)
    return bytes(e.buf)


# ---------------------------------------------------------------------------------------
# decoder (strict: checks padding is zero, lengths consistent, NUL terminators)
class _Dec:
    def __init__(self, data, little, offset, base):
        self.d = data
        self.e = '<' if little else '>'
        self.p = offset
        self.base = base      # position of data[0] relative to the message start

    def align(self, a):
        while (self.p + self.base) % a:
            if self.p >= len(self.d):
                raise CodecError('truncated in padding')
            if self.d[self.p] != 0:
                raise CodecError('non-zero padding at %d' % self.p)
            self.p += 1

    def take(self, n):
        if self.p + n > len(self.d):
            raise CodecError('truncated')
        b = self.d[self.p:self.p + n]
        self.p += n
        return b

    def get(self, t):
        c = t[0]
        self.align(ALIGN[c])
        if c in FIXED:
            f = FIXED[c]
            return struct.unpack(self.e + f, self.take(struct.calcsize(f)))[0]
        if c == 'b':
            v = struct.unpack(self.e + 'I', self.take(4))[0]
            if v not in (0, 1):
                raise CodecError('boolean out of range')
            return bool(v)
        if c in 'so':
            n = struct.unpack(self.e + 'I', self.take(4))[0]
            b = self.take(n)
            if self.take(1) != b'\0':
                raise CodecError('string not NUL terminated')
            return b.decode('utf-8')
        if c == 'g':
            n = self.take(1)[0]
            b = self.take(n)
            if self.take(1) != b'\0':
                raise CodecError('signature not NUL terminated')
            return b.decode('ascii')
        if c == 'a':
            et = t[1:]
            n = struct.unpack(self.e + 'I', self.take(4))[0]
            self.align(ALIGN[et[0]])
            end = self.p + n
            if end > len(self.d):
                raise CodecError('array overruns data')
            out = []
            while self.p < end:
                before = self.p
                out.append(self.get(et))
                if self.p == before:
                    raise CodecError('zero-size array element')
            if self.p != end:
                raise CodecError('array length mismatch')
            return out
        if c in '({':
            self.align(8)
            return tuple(self.get(st) for st in split_sig(t[1:-1]))
        if c == 'v':
            s = self.get('g')
            if len(split_sig(s)) != 1:
                raise CodecError('variant signature not a single complete type')
            return V(s, self.get(s))
        raise CodecError('cannot decode %r' % t)


def decode(sig, data, little=True, offset=0, base=0):
    d = _Dec(data, little, offset, base)
    vals = [d.get(t) for t in split_sig(sig)]
    return vals, d.p


# ---------------------------------------------------------------------------------------
# messages
class Msg:
    """A reference message.  fields: {code: value}; unknown codes allowed via extra."""

    def __init__(self, mtype, serial, fields=None, sig='', body=(), flags=0,
                 little=True, extra=(), order=None, version=1):
        self.mtype = mtype
        self.serial = serial
        self.fields = dict(fields or {})
        self.sig = sig or ''
        self.body = list(body)
        self.flags = flags
        self.little = little
        self.extra = list(extra)       # [(code, sig, value)] unknown header fields
        self.order = order             # permutation of field codes, or None
        self.version = version
        self.raw = None

    def get(self, name):
        for c, n in FIELD_NAME.items():
            if n == name:
                return self.fields.get(c)
        raise KeyError(name)

    def describe(self):
        d = {FIELD_NAME[c]: v for c, v in sorted(self.fields.items())}
        return (self.mtype, self.serial, self.flags, tuple(sorted(d.items())),
                self.sig, repr(self.body))

    def __repr__(self):
        return 'Msg%r' % (self.describe(),)

    def encode(self):
        body = encode(self.sig, self.body, self.little, 0) if self.sig else b''
        fields = dict(self.fields)
        if self.sig:
            fields[F_SIGNATURE] = self.sig
        codes = list(fields.keys())
        codes.sort()
        if self.order is not None:
            codes = [c for c in self.order if c in fields] + \
                    [c for c in codes if c not in self.order]
        entries = [(c, V(FIELD_SIG[c], fields[c])) for c in codes]
        for c, s, v in self.extra:
            entries.append((c, V(s, v)))
        hdr = encode('yyyyuua(yv)',
                     [ord('l') if self.little else ord('B'), self.mtype, self.flags,
                      self.version, len(body), self.serial, entries], self.little, 0)
        pad = (-len(hdr)) % 8
        self.raw = hdr + b'\0' * pad + body
        return self.raw


def decode_message(raw):
    """Strict decoder for one complete message.  Raises CodecError when malformed."""
    try:
        return _decode_message(raw)
    except CodecError:
        raise
    except (RecursionError, struct.error, UnicodeError, IndexError, ValueError, KeyError,
            TypeError) as e:
        raise CodecError('undecodable: %s' % type(e).__name__)


def _decode_message(raw):
    if len(raw) < 16:
        raise CodecError('short message')
    if raw[0:1] == b'l':
        little = True
    elif raw[0:1] == b'B':
        little = False
    else:
        raise CodecError('bad endian flag')
    vals, n = decode('yyyyuua(yv)', raw, little, 0)
    _, mtype, flags, version, blen, serial, entries = vals
    if version != 1:
        raise CodecError('protocol version %r' % version)
    if serial == 0:
        raise CodecError('zero serial')
    pad = (-n) % 8
    if raw[n:n + pad] != b'\0' * pad:
        raise CodecError('header padding not zero')
    bstart = n + pad
    if len(raw) - bstart != blen:
        raise CodecError('body length %d declared, %d present' % (blen, len(raw) - bstart))
    fields = {}
    extra = []
    for code, var in entries:
        if code in FIELD_SIG:
            if var.sig != FIELD_SIG[code]:
                raise CodecError('header field %d has type %r' % (code, var.sig))
            if code in fields:
                raise CodecError('duplicate header field %d' % code)
            fields[code] = var.value
        else:
            extra.append((code, var.sig, var.value))
    sig = fields.pop(F_SIGNATURE, '')
    body = []
    if sig:
        body, used = decode(sig, raw[bstart:], little, 0)
        if used != blen:
            raise CodecError('body has %d bytes, signature consumed %d' % (blen, used))
    elif blen:
        raise CodecError('body without signature')
    req = {1: (F_PATH, F_MEMBER), 2: (F_REPLY_SERIAL,), 3: (F_ERROR_NAME, F_REPLY_SERIAL),
           4: (F_PATH, F_INTERFACE, F_MEMBER)}
    for c in req.get(mtype, ()):
        if c not in fields:
            raise CodecError('required header field %d missing' % c)
    m = Msg(mtype, serial, fields, sig, body, flags, little, extra)
    m.raw = bytes(raw)
    return m


def frame_length(prefix):
    """total length of the message starting with the 16 given bytes"""
    little = prefix[0:1] == b'l'
    e = '<' if little else '>'
    blen = struct.unpack(e + 'I', prefix[4:8])[0]
    hlen = struct.unpack(e + 'I', prefix[12:16])[0]
    h = 16 + hlen
    return h + ((-h) % 8) + blen


class FrameSplitter:
    """Cuts a byte stream written by txdbus into messages (for wire oracles)."""

    def __init__(self):
        self.buf = b''

    def feed(self, data):
        self.buf += data
        out = []
        while len(self.buf) >= 16:
            n = frame_length(self.buf[:16])
            if len(self.buf) < n:
                break
            out.append(self.buf[:n])
            self.buf = self.buf[n:]
        return out


# ---------------------------------------------------------------------------------------
# normalisation: reference typed value -> what a DBus binding hands to Python code
def plain(sig_t, v):
    """struct -> list, dict array -> dict, variant -> inner value; ay -> list of ints"""
    c = sig_t[0]
    if c == 'a':
        et = sig_t[1:]
        if et[0] == '{':
            kt, vt = split_sig(et[1:-1])
            return {plain(kt, k): plain(vt, x) for k, x in v}
        return [plain(et, x) for x in v]
    if c == '(':
        return [plain(t, x) for t, x in zip(split_sig(sig_t[1:-1]), v)]
    if c == 'v':
        return plain(v.sig, v.value)
    return v


def plain_body(sig, body):
    return [plain(t, v) for t, v in zip(split_sig(sig), body)]


def canon(x):
    """hashable canonical form for comparison (floats by bit pattern, tuples == lists,
    bytearray == list of ints, bool == int)"""
    if isinstance(x, float):
        return ('f', struct.pack('<d', x))
    if isinstance(x, bool):
        return int(x)
    if isinstance(x, (list, tuple)):
        return tuple(canon(i) for i in x)
    if isinstance(x, (bytes, bytearray)):
        return tuple(x)
    if isinstance(x, dict):
        return ('d', frozenset((canon(k), canon(v)) for k, v in x.items()))
    if isinstance(x, V):
        return canon(plain(x.sig, x.value))
    if isinstance(x, str):
        return str(x)
    if isinstance(x, int):
        return int(x)
    return x
