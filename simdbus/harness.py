"""
Shared scenario plumbing: a real DBusClientConnection attached to a scripted daemon, a
real Bus with attached clients, exception keys, Deferred observers.
"""
import traceback

from twisted.python.failure import Failure

from . import net, refcodec as rc
from .kernel import HarnessError, Node, Violation
from .peers import WirePeer

from txdbus import client as t_client


def exc_key(e):
    """stable discriminator for an escaping exception: type + innermost function"""
    if isinstance(e, RecursionError):
        return 'RecursionError'
    tb = traceback.extract_tb(e.__traceback__)
    fn = tb[-1].name if tb else '?'
    return '%s in %s' % (type(e).__name__, fn)


def check_no_exceptions(sim, prop, allow=()):
    for where, what, e in sim.exceptions:
        if any(isinstance(e, a) for a in allow):
            continue
        raise Violation(prop + '/exception', exc_key(e),
                        'exception escaped into the reactor from %s of %s: %r'
                        % (what, where, e))


def check_no_logged_errors(ctx, prop, allow=()):
    for name, f in ctx.seams.errors:
        if f is not None and allow and f.check(*allow):
            continue          # the workload's own misbehaving callbacks, reported by the library
        raise Violation(prop + '/logged-error', name,
                        'error logged during the run: %s' % (f.getTraceback()[-400:] if f else name))


class Obs:
    """Counts firings of a Deferred."""

    def __init__(self, sim, label, sink=None):
        self.sim = sim
        self.label = label
        self.fired = []
        self.sink = sink

    def watch(self, d):
        d.addCallbacks(self._ok, self._err)
        return self

    def _ok(self, v):
        self.fired.append(('ok', v))
        self.sim.log('cb', self.label, 'ok', type(v).__name__)
        if self.sink is not None:
            self.sink.append((self.label, 'ok', v))

    def _err(self, f):
        self.fired.append(('err', f))
        self.sim.log('cb', self.label, 'err', type(f.value).__name__)
        if self.sink is not None:
            self.sink.append((self.label, 'err', f))


def serial_start(ds, sim):
    """where a simulated process's serial counter stands: anywhere, now and then a few messages
    before the 2^32 wrap-around"""
    if ds.flag(0.03):
        sim.probe('process-about-to-wrap-its-serials')
        return 2**32 - 1 - ds.choose(12)
    return 1 + ds.choose(2**32 - 10**6)


class ClientRig:
    """real DBusClientConnection <-> scripted daemon (WirePeer)"""

    def __init__(self, ctx, name='c1', unix=False, bus_name=':1.42', serial_start=None,
                 calm_handshake=True, auto_bus=True, node=None):
        sim = ctx.sim
        self.ctx = ctx
        self.sim = sim
        if serial_start is None:
            serial_start = globals()['serial_start'](ctx.ds, sim)
        # node: another connection of a process that already exists (shares its globals)
        self.node = node or Node(name, serial_start=serial_start,
                                 known=dict(__import__('simdbus.seams', fromlist=['x']).KNOWN_AT_IMPORT))
        self.factory = t_client.DBusClientFactory()
        self.connected = Obs(sim, name + '.connect').watch(self.factory.getConnection())
        self.proto = sim.call(self.node, self.factory.buildProtocol, None)
        self.daemon = WirePeer('daemon')
        self.conn = net.Connection(sim, name, self.node, None, unix=unix)
        self.bus_name = bus_name
        self.sent = []               # reference-decoded messages the client wrote
        self.bad = []
        self._split = rc.FrameSplitter()
        self._binary = False
        self.conn.a.taps.append(self._tap)
        self.auto_bus = auto_bus
        self.daemon.on_message = self._daemon_msg
        self.handlers = []           # scenario hooks: fn(msg) -> True if consumed
        self.conn.attach(self.proto, self.daemon)
        if calm_handshake:
            self.calm()
            if self.proto.busName != bus_name:
                raise HarnessError('calm handshake did not complete: busName=%r lines=%r'
                                   % (self.proto.busName, self.daemon.lines))

    def _tap(self, data):
        if not self._binary:
            if data.startswith(b'BEGIN'):
                self._binary = True
            return
        for frame in self._split.feed(data):
            try:
                self.sent.append(rc.decode_message(frame))
            except rc.CodecError as e:
                self.bad.append((frame, str(e)))

    def _daemon_msg(self, m):
        for h in self.handlers:
            if h(m):
                return
        if not self.auto_bus:
            return
        if m.mtype == rc.METHOD_CALL and m.fields.get(rc.F_DESTINATION) == 'org.freedesktop.DBus':
            mem = m.fields.get(rc.F_MEMBER)
            if mem == 'Hello':
                self.daemon.method_return(m.serial, 's', [self.bus_name], dest=self.bus_name)
            elif mem in ('AddMatch', 'RemoveMatch'):
                if not (m.flags & 1):
                    self.daemon.method_return(m.serial, dest=self.bus_name)

    def calm(self, limit=200):
        """deliver everything FIFO and whole until quiet (no timers, no loss)"""
        n = 0
        while n < limit:
            pipes = [p for p in self.conn.pipes if p.buf and p.dst.state == net.OPEN]
            if not pipes:
                return
            pipes.sort(key=lambda p: p.first_seq)
            net.deliver(self.sim, pipes[0], len(pipes[0].buf))
            n += 1
        raise HarnessError('calm() did not quiesce')

    def call(self, fn, *a, **kw):
        return self.sim.call(self.node, fn, *a, **kw)

    def check_wire(self, prop):
        if self.bad:
            frame, why = self.bad[0]
            raise Violation(prop + '/malformed-frame', why.split(' at ')[0][:60],
                            'txdbus wrote a frame the reference decoder rejects: %s (%r...)'
                            % (why, frame[:48]))


# =======================================================================================
# real Bus with attached clients
from txdbus import bus as t_bus  # noqa: E402
from .refpeer import RefSaslClient  # noqa: E402
from .seams import KNOWN_AT_IMPORT  # noqa: E402


class BusFactory:
    def __init__(self, bus):
        self.bus = bus


class RefBusPeer(RefSaslClient):
    """A foreign (non-txdbus) bus client: ANONYMOUS handshake, then reference-coded
    messages.  Says Hello by itself."""

    def __init__(self, name, mech='ANONYMOUS'):
        RefSaslClient.__init__(self, mech)
        self.name = name
        self.splitter = rc.FrameSplitter()
        self.messages = []           # decoded messages received
        self.bad = []
        self.serial = 1 + (hash(name) % 1000 if False else 0)
        self.unique = None
        self.hello_serial = None
        self.on_message = None
        self.say_hello = True        # False: never says Hello by itself; learns its unique name
        #                              from the destination of the first message addressed to it

    def next_serial(self):
        self.serial += 1
        return self.serial

    def line(self, line):
        RefSaslClient.line(self, line)
        if self.begun and self.hello_serial is None and self.say_hello:
            m = rc.Msg(rc.METHOD_CALL, self.next_serial(),
                       {rc.F_PATH: '/org/freedesktop/DBus', rc.F_INTERFACE: 'org.freedesktop.DBus',
                        rc.F_MEMBER: 'Hello', rc.F_DESTINATION: 'org.freedesktop.DBus'})
            self.hello_serial = m.serial
            self.transport.write(m.encode())

    def dataReceived(self, data):
        if not self.begun:
            RefSaslClient.dataReceived(self, data)
            if self.begun and self.buf:
                rest, self.buf = self.buf, b''
                self._binary(rest)
            return
        self.received += data
        self._binary(data)

    def _binary(self, data):
        for frame in self.splitter.feed(data):
            try:
                m = rc.decode_message(frame)
            except rc.CodecError as e:
                self.bad.append((frame, str(e)))
                continue
            if (m.mtype == rc.METHOD_RETURN and self.unique is None
                    and m.fields.get(rc.F_REPLY_SERIAL) == self.hello_serial):
                self.unique = m.body[0] if m.body else None
            if (self.unique is None and not self.say_hello
                    and str(m.fields.get(rc.F_DESTINATION) or '').startswith(':')):
                self.unique = m.fields[rc.F_DESTINATION]
            self.messages.append(m)
            if self.on_message:
                self.on_message(m)

    def send(self, m):
        if m.raw is None:
            m.encode()
        self.transport.write(m.raw)
        return m

    def bus_call(self, member, sig='', body=(), flags=0):
        return self.send(rc.Msg(rc.METHOD_CALL, self.next_serial(),
                                {rc.F_PATH: '/org/freedesktop/DBus',
                                 rc.F_INTERFACE: 'org.freedesktop.DBus', rc.F_MEMBER: member,
                                 rc.F_DESTINATION: 'org.freedesktop.DBus'}, sig, body, flags=flags))


class BusRig:
    """real txdbus Bus + BusProtocol per connection; clients are real DBusClientConnections
    (each on its own Node) or RefBusPeers."""

    def __init__(self, ctx, creds=True, prop='BUS'):
        self.ctx = ctx
        self.prop = prop
        self.sim = ctx.sim
        ds = ctx.ds
        ctx.seams.home()
        ctx.seams.set_linux(bool(creds))
        self.creds = creds
        self.node = Node('bus', serial_start=serial_start(ds, ctx.sim), known=dict(KNOWN_AT_IMPORT))
        self.bus = self.sim.call(self.node, t_bus.Bus)
        self.factory = BusFactory(self.bus)
        self.clients = []        # dicts
        self.n = 0
        self.after_step = None
        self.journal = []

    def _server_proto(self, name):
        """BusProtocol with pass-through tracing on its documented hooks: the journal records
        which incoming message (or disconnect) the bus is processing, so that everything it
        writes can be attributed to its cause"""
        journal = self.journal
        import struct as _struct

        class TracedBusProtocol(t_bus.BusProtocol):
            def rawDBusMessageReceived(self, raw):
                e = '<' if raw[:1] == b'l' else '>'
                journal.append(('in', name, _struct.unpack(e + 'I', raw[8:12])[0]))
                return t_bus.BusProtocol.rawDBusMessageReceived(self, raw)

            def connectionLost(self, reason):
                journal.append(('lost', name, None))
                return t_bus.BusProtocol.connectionLost(self, reason)
        p = TracedBusProtocol()
        p.factory = self.factory
        return p

    def segment(self, name, serial):
        """messages the bus wrote (to anybody) while processing message `serial` of `name`:
        -> {peer name: [Msg]} ; None when that message has not been processed"""
        out = None
        for kind, who, what in self.journal:
            if kind == 'in' or kind == 'lost':
                if out is not None:
                    return out
                if kind == 'in' and who == name and what == serial:
                    out = {}
            elif out is not None:
                out.setdefault(who, []).append(what)
        return out

    def lost_segment(self, name):
        out = None
        for kind, who, what in self.journal:
            if kind == 'in' or kind == 'lost':
                if out is not None:
                    return out
                if kind == 'lost' and who == name:
                    out = {}
            elif out is not None:
                out.setdefault(who, []).append(what)
        return out

    def add_client(self, unix=None, calm=True):
        """a real DBusClientConnection"""
        ds = self.ctx.ds
        self.n += 1
        name = 'c%d' % self.n
        node = Node(name, serial_start=serial_start(ds, self.sim), known=dict(KNOWN_AT_IMPORT))
        factory = t_client.DBusClientFactory()
        obs = Obs(self.sim, name + '.connect').watch(factory.getConnection())
        proto = self.sim.call(node, factory.buildProtocol, None)
        if unix is None:
            unix = ds.flag(0.5)
        conn = net.Connection(self.sim, name, node, self.node, unix=unix,
                              creds=(4000 + self.n, 1000, 1000) if self.creds else None)
        sp = self._server_proto(name)
        rec = {'name': name, 'node': node, 'proto': proto, 'conn': conn, 'server': sp,
               'connected': obs, 'kind': 'real', 'sent': [], 'rcvd': [], 'bad': []}
        self._tap(rec)
        conn.attach(proto, sp, a_first=False)
        self.clients.append(rec)
        if calm:
            self.calm()
            if not (obs.fired and obs.fired[0][0] == 'ok'):
                raise Violation(self.prop + '/attach', 'client cannot attach',
                                'real client could not attach to the built-in bus: %r; exceptions %r'
                                % (obs.fired, [(w, x, repr(e)) for w, x, e in self.sim.exceptions]))
        return rec

    def add_peer(self, unix=False, calm=True, hello=True):
        self.n += 1
        name = 'r%d' % self.n
        peer = RefBusPeer(name)
        peer.say_hello = hello
        conn = net.Connection(self.sim, name, None, self.node, unix=unix,
                              creds=(4000 + self.n, 1000, 1000) if self.creds else None)
        sp = self._server_proto(name)
        rec = {'name': name, 'node': None, 'proto': peer, 'conn': conn, 'server': sp,
               'kind': 'ref', 'sent': [], 'rcvd': [], 'bad': []}
        self._tap(rec)
        conn.attach(peer, sp, a_first=False)
        self.clients.append(rec)
        if calm:
            self.calm()
            if not hello:
                # no Hello: the first message is a call to the bus, which the bus serves; its
                # reply tells the peer the unique name it was given
                peer.bus_call('GetId')
                self.calm()
                if peer.unique is None:
                    raise Violation(self.prop + '/attach', 'no unique name before Hello',
                                    'a connection that has not said Hello called the bus; the reply '
                                    'names no destination: %r' % [m.describe() for m in peer.messages])
            if peer.unique is None:
                raise Violation(self.prop + '/attach', 'reference peer cannot attach',
                                'reference peer could not attach: lines %r, exceptions %r'
                                % (peer.lines, [(w, x, repr(e)) for w, x, e in self.sim.exceptions]))
        return rec

    def _tap(self, rec):
        """reference-decode both directions of the link"""
        up, down = rc.FrameSplitter(), rc.FrameSplitter()
        st = {'up_bin': False, 'down_bin': False}

        def tap_up(data):
            if not st['up_bin']:
                i = data.find(b'BEGIN\r\n')
                if i < 0:
                    return
                st['up_bin'] = True
                data = data[i + 7:]
            for fr in up.feed(data):
                try:
                    rec['sent'].append(rc.decode_message(fr))
                except rc.CodecError as e:
                    rec['bad'].append(('up', str(e), fr))

        def tap_down(data):
            if not st['down_bin']:
                if data[:1] in (b'l', b'B') and st['up_bin']:
                    st['down_bin'] = True
                else:
                    return
            for fr in down.feed(data):
                try:
                    m = rc.decode_message(fr)
                    rec['rcvd'].append(m)
                    self.journal.append(('out', rec['name'], m))
                except rc.CodecError as e:
                    rec['bad'].append(('down', str(e), fr))
        rec['conn'].a.taps.append(tap_up)
        rec['conn'].b.taps.append(tap_down)

    def unique(self, rec):
        if rec['kind'] == 'real':
            return rec['proto'].busName
        return rec['proto'].unique

    def calm(self, limit=400):
        """deliver everything FIFO and whole until quiet; self.after_step (if set) runs after
        every delivery so that oracles never miss a processing instant"""
        n = 0
        while n < limit:
            pipes = net.deliverable(self.sim)
            if not pipes:
                los = net.losable(self.sim)
                if not los:
                    return
                los[0].do_lose()
            else:
                net.deliver(self.sim, pipes[0], len(pipes[0].buf))
            if self.after_step is not None:
                self.after_step()
            n += 1
        raise HarnessError('bus calm() did not quiesce')

    def call(self, rec, fn, *a, **kw):
        return self.sim.call(rec['node'], fn, *a, **kw)

    def check_wire(self, prop):
        for rec in self.clients:
            if rec['bad']:
                d, why, fr = rec['bad'][0]
                raise Violation(prop + '/malformed-frame', '%s %s' % (d, why.split(' at ')[0][:50]),
                                'link %s (%s): frame rejected by the reference decoder: %s (%r...)'
                                % (rec['name'], d, why, fr[:60]))
