"""
Shared scenario plumbing: a real DBusClientConnection attached to a scripted daemon, a
real Bus with attached clients, exception keys, Deferred observers.
"""
import traceback

from twisted.python.failure import Failure

from . import net, refcodec as rc
from .kernel import HarnessError, Node, Violation
from .peers import WirePeer

from txdbus import client as t_client


def exc_key(e):
    """stable discriminator for an escaping exception: type + innermost function"""
    if isinstance(e, RecursionError):
        return 'RecursionError'
    tb = traceback.extract_tb(e.__traceback__)
    fn = tb[-1].name if tb else '?'
    return '%s in %s' % (type(e).__name__, fn)


def check_no_exceptions(sim, prop, allow=()):
    for where, what, e in sim.exceptions:
        if any(isinstance(e, a) for a in allow):
            continue
        raise Violation(prop + '/exception', exc_key(e),
                        'exception escaped into the reactor from %s of %s: %r'
                        % (what, where, e))


def check_no_logged_errors(ctx, prop):
    for name, f in ctx.seams.errors:
        raise Violation(prop + '/logged-error', name,
                        'error logged during the run: %s' % (f.getTraceback()[-400:] if f else name))


class Obs:
    """Counts firings of a Deferred."""

    def __init__(self, sim, label, sink=None):
        self.sim = sim
        self.label = label
        self.fired = []
        self.sink = sink

    def watch(self, d):
        d.addCallbacks(self._ok, self._err)
        return self

    def _ok(self, v):
        self.fired.append(('ok', v))
        self.sim.log('cb', self.label, 'ok', type(v).__name__)
        if self.sink is not None:
            self.sink.append((self.label, 'ok', v))

    def _err(self, f):
        self.fired.append(('err', f))
        self.sim.log('cb', self.label, 'err', type(f.value).__name__)
        if self.sink is not None:
            self.sink.append((self.label, 'err', f))


class ClientRig:
    """real DBusClientConnection <-> scripted daemon (WirePeer)"""

    def __init__(self, ctx, name='c1', unix=False, bus_name=':1.42', serial_start=None,
                 calm_handshake=True, auto_bus=True):
        sim = ctx.sim
        self.ctx = ctx
        self.sim = sim
        if serial_start is None:
            serial_start = 1 + ctx.ds.choose(2**32 - 10**6)
        self.node = Node(name, serial_start=serial_start,
                         known=dict(__import__('simdbus.seams', fromlist=['x']).KNOWN_AT_IMPORT))
        self.factory = t_client.DBusClientFactory()
        self.connected = Obs(sim, name + '.connect').watch(self.factory.getConnection())
        self.proto = sim.call(self.node, self.factory.buildProtocol, None)
        self.daemon = WirePeer('daemon')
        self.conn = net.Connection(sim, name, self.node, None, unix=unix)
        self.bus_name = bus_name
        self.sent = []               # reference-decoded messages the client wrote
        self.bad = []
        self._split = rc.FrameSplitter()
        self._binary = False
        self.conn.a.taps.append(self._tap)
        self.auto_bus = auto_bus
        self.daemon.on_message = self._daemon_msg
        self.handlers = []           # scenario hooks: fn(msg) -> True if consumed
        self.conn.attach(self.proto, self.daemon)
        if calm_handshake:
            self.calm()
            if self.proto.busName != bus_name:
                raise HarnessError('calm handshake did not complete: busName=%r lines=%r'
                                   % (self.proto.busName, self.daemon.lines))

    def _tap(self, data):
        if not self._binary:
            if data.startswith(b'BEGIN'):
                self._binary = True
            return
        for frame in self._split.feed(data):
            try:
                self.sent.append(rc.decode_message(frame))
            except rc.CodecError as e:
                self.bad.append((frame, str(e)))

    def _daemon_msg(self, m):
        for h in self.handlers:
            if h(m):
                return
        if not self.auto_bus:
            return
        if m.mtype == rc.METHOD_CALL and m.fields.get(rc.F_DESTINATION) == 'org.freedesktop.DBus':
            mem = m.fields.get(rc.F_MEMBER)
            if mem == 'Hello':
                self.daemon.method_return(m.serial, 's', [self.bus_name], dest=self.bus_name)
            elif mem in ('AddMatch', 'RemoveMatch'):
                if not (m.flags & 1):
                    self.daemon.method_return(m.serial, dest=self.bus_name)

    def calm(self, limit=200):
        """deliver everything FIFO and whole until quiet (no timers, no loss)"""
        n = 0
        while n < limit:
            pipes = [p for p in self.conn.pipes if p.buf and p.dst.state == net.OPEN]
            if not pipes:
                return
            pipes.sort(key=lambda p: p.first_seq)
            net.deliver(self.sim, pipes[0], len(pipes[0].buf))
            n += 1
        raise HarnessError('calm() did not quiesce')

    def call(self, fn, *a, **kw):
        return self.sim.call(self.node, fn, *a, **kw)

    def check_wire(self, prop):
        if self.bad:
            frame, why = self.bad[0]
            raise Violation(prop + '/malformed-frame', why.split(' at ')[0][:60],
                            'txdbus wrote a frame the reference decoder rejects: %s (%r...)'
                            % (why, frame[:48]))
