"""
Runner: fans simulated runs out over processes, filters known findings, minimises and
writes replay files, writes the evidence file, maps outcomes to exit codes.

exit 0  property held on everything explored (KNOWN-FINDING lines allowed)
exit 1  at least one VIOLATION line
exit 2  harness error (exception in the machinery, nondeterministic replay, dead worker)
"""
import faulthandler
import gc
import hashlib
import json
import multiprocessing
import os
import signal
import sys
import time
import traceback
from collections import Counter
from concurrent.futures import ProcessPoolExecutor, as_completed

from .kernel import DecisionStream, HarnessError, Sim, Violation
from .net import SimReactor
from .seams import Seams, REPO, scratch_base

VERIF = os.path.dirname(os.path.dirname(os.path.abspath(__file__)))
def REPLAYS():
    return os.environ.get('VERIF_REPLAY_DIR') or os.path.join(VERIF, 'replays')


RUN_WALL_LIMIT = 20          # seconds; a run of a few ms that takes this long is a hang


class RunTimeout(BaseException):
    pass


class Ctx:
    """Everything a scenario needs for one run."""

    def __init__(self, ds, tier, preset=None):
        self.ds = ds
        self.tier = tier
        self.preset = preset or {}
        self.seams = Seams()
        self.sim = Sim(ds, self.seams)
        self.reactor = SimReactor(self.sim)
        self.config = {}

    def violation(self, clause, key, msg):
        raise Violation(clause, key, msg)


def _alarm(signum, frame):
    raise RunTimeout()


def execute(module, tier, seed=None, decisions=None, preset=None, want_trace=False,
            wall_limit=RUN_WALL_LIMIT):
    """One simulated run.  Returns a result dict; never raises Violation."""
    ds = DecisionStream(seed=seed, replay=decisions)
    ctx = Ctx(ds, tier, preset)
    sim = ctx.sim
    viol = None
    ctx.seams.install(sim, ctx.reactor)
    old = signal.signal(signal.SIGALRM, _alarm)
    signal.setitimer(signal.ITIMER_REAL, wall_limit)
    try:
        try:
            module.scenario(ctx)
        except Violation as v:
            viol = (v.clause, v.key, v.msg)
        except RunTimeout:
            viol = (module.PROPERTY + '/hang', 'wall-timeout',
                    'run did not finish within %ds of wall time (non-termination inside '
                    'one callback); last events: %s' % (wall_limit, sim.trace[-3:]))
        except MemoryError as e:
            if getattr(module, 'RLIMIT_AS', None):
                # the check runs its workers under an address-space limit precisely so that a
                # runaway allocation of the code under test ends here and not in an OOM kill
                viol = (module.PROPERTY + '/allocation', 'MemoryError',
                        'the run exhausted the address-space limit of its worker (%d MiB); last events: %s'
                        % (module.RLIMIT_AS >> 20, sim.trace[-3:]))
            else:
                raise
        except RecursionError as e:
            raise HarnessError('RecursionError inside harness: %r' % (e,))
        except Exception as e:
            # An exception that ORIGINATES inside txdbus and escapes through its public API
            # into the workload (which only makes valid calls) is the library's failure, not
            # the harness's: report it as a violation.  Anything raised by harness code is
            # a harness error.
            tb = traceback.extract_tb(e.__traceback__)
            origin = tb[-1].filename if tb else ''
            if os.path.realpath(origin).startswith(os.path.realpath(REPO) + os.sep):
                viol = (module.PROPERTY + '/api-raised', '%s in %s' % (type(e).__name__, tb[-1].name),
                        'txdbus raised %r into the workload (%s:%d)' % (e, origin, tb[-1].lineno))
            else:
                raise
    finally:
        signal.setitimer(signal.ITIMER_REAL, 0)
        signal.signal(signal.SIGALRM, old)
        ctx.seams.restore()
        cleanup = getattr(module, 'cleanup', None)
        if cleanup:
            cleanup(ctx)
    sim.log('end', viol[0] if viol else 'ok')
    res = {
        'digest': sim.digest(),
        'sched': sim.sh.hexdigest()[:16],
        'states': sorted(sim.states),
        'faults': dict(sim.faults),
        'probes': dict(sim.probes),
        'nontrivial': bool(sim.nontrivial),
        'sim_seconds': sim.sim_seconds,
        'steps': sim.step,
        'violation': viol,
        'decisions': list(ds.rec),
        'config': ctx.config,
    }
    if want_trace:
        res['trace'] = list(sim.trace)
    return res


def run_seed(base_seed, prop, idx):
    h = hashlib.sha256(('%d/%s/%d' % (base_seed, prop, idx)).encode()).digest()
    return int.from_bytes(h[:8], 'big')


# ---------------------------------------------------------------------------------------
# known findings
def load_known():
    p = os.path.join(VERIF, 'known_findings.json')
    if not os.path.exists(p):
        return []
    with open(p) as f:
        return json.load(f).get('findings', [])


def known_match(known, prop, clause, key):
    for k in known:
        if k.get('status') != 'known' or k.get('property') != prop:
            continue
        if k.get('clause') == clause and k.get('key') == key:
            return k
    return None


# ---------------------------------------------------------------------------------------
# worker
def _import_check(prop):
    import importlib
    return importlib.import_module('checks.' + prop.lower())


# every run index this worker process has executed so far (state of the code under test may
# leak from one simulated run to the next inside one process; see try_history)
WORKER_HISTORY = []


def batch(prop, tier, base_seed, start, count, deadline, presets=None):
    """Run `count` runs (or the given presets) and aggregate."""
    faulthandler.enable()
    module = _import_check(prop)
    lim = getattr(module, 'RLIMIT_AS', None)
    if lim:
        import resource
        try:
            resource.setrlimit(resource.RLIMIT_AS, (lim, lim))
        except (ValueError, OSError):
            pass
    known = load_known()
    agg = {
        'runs': 0, 'faults': Counter(), 'probes': Counter(), 'scheds': set(),
        'nontrivial_scheds': set(), 'states': set(), 'sim_seconds': 0.0, 'steps': 0,
        'violations': {}, 'known': Counter(), 'samples': [], 'errors': [],
    }
    items = presets if presets is not None else range(start, start + count)
    for n, it in enumerate(items):
        if deadline and time.time() > deadline:
            break
        if presets is not None:
            idx, preset = it
        else:
            idx, preset = it, None
        seed = run_seed(base_seed, prop, idx)
        want = (n < 1)
        try:
            r = execute(module, tier, seed=seed, preset=preset, want_trace=want)
        except BaseException as e:
            agg['errors'].append('run %d seed %d: %s' % (idx, seed, ''.join(
                traceback.format_exception(type(e), e, e.__traceback__))[-3000:]))
            if len(agg['errors']) > 3:
                break
            continue
        WORKER_HISTORY.append(idx)
        agg['runs'] += 1
        agg['faults'].update(r['faults'])
        agg['probes'].update(r['probes'])
        agg['scheds'].add(r['sched'])
        if r['nontrivial']:
            agg['nontrivial_scheds'].add(r['sched'])
        agg['states'].update(r['states'])
        agg['sim_seconds'] += r['sim_seconds']
        agg['steps'] += r['steps']
        if want:
            tr = [l for l in r['trace'] if not l.startswith(('w ', 'callLater', 'cancel'))]
            agg['samples'].append({'run_index': idx, 'seed': seed, 'preset': preset,
                                   'config': r['config'], 'decisions': r['decisions'][:200],
                                   'trace': tr[:40] + (['...'] + tr[-40:] if len(tr) > 80 else tr[40:80])})
        v = r['violation']
        if v:
            k = known_match(known, prop, v[0], v[1])
            if k is not None:
                agg['known'][(v[0], v[1])] += 1
            else:
                kk = (v[0], v[1])
                if kk not in agg['violations']:
                    agg['violations'][kk] = {
                        'clause': v[0], 'key': v[1], 'msg': v[2], 'seed': seed,
                        'run_index': idx, 'preset': preset, 'decisions': r['decisions'],
                        'digest': r['digest'], 'count': 0, 'alternates': [],
                        'history': list(WORKER_HISTORY[-4000:])}
                elif len(agg['violations'][kk]['alternates']) < 3:
                    agg['violations'][kk]['alternates'].append(
                        {'seed': seed, 'run_index': idx, 'preset': preset,
                         'decisions': r['decisions']})
                agg['violations'][kk]['count'] += 1
        if n % 50 == 49:
            gc.collect()
    agg['scheds'] = list(agg['scheds'])
    agg['nontrivial_scheds'] = list(agg['nontrivial_scheds'])
    agg['states'] = list(agg['states'])[:5000]
    return agg


# ---------------------------------------------------------------------------------------
# minimisation
def shrink(module, tier, viol, budget_s=60, max_replays=2500):
    """Shrink the decision list while the same (clause, key) persists."""
    target = (viol['clause'], viol['key'])
    preset = viol.get('preset')
    t0 = time.time()
    replays = [0]

    def test(dec):
        if replays[0] >= max_replays or time.time() - t0 > budget_s:
            return None
        replays[0] += 1
        t1 = time.time()
        try:
            r = execute(module, tier, decisions=dec, preset=preset)
        except BaseException:
            return None
        if time.time() - t1 > 3.0:
            # very long runs: a handful of replays is all the budget allows
            replays[0] += max_replays // 12
        v = r['violation']
        if v and (v[0], v[1]) == target:
            return r
        return None

    best = list(viol['decisions'])
    r0 = test(best)
    if r0 is None:
        return None, replays[0]
    best = r0['decisions']
    best_r = r0

    def better(cand, r):
        rec = r['decisions']
        return len(rec) < len(best) or (len(rec) == len(best) and rec < best)

    improved = True
    while improved:
        improved = False
        # strip trailing zeros / truncate
        n = len(best)
        for cut in (n // 2, n * 3 // 4, n - 8, n - 4, n - 2, n - 1):
            if 0 <= cut < len(best):
                r = test(best[:cut])
                if r and better(best[:cut], r):
                    best, best_r, improved = r['decisions'], r, True
        # delete blocks
        for bs in (16, 8, 4, 2, 1):
            i = 0
            while i + bs <= len(best):
                cand = best[:i] + best[i + bs:]
                r = test(cand)
                if r and better(cand, r):
                    best, best_r, improved = r['decisions'], r, True
                else:
                    i += bs
                if time.time() - t0 > budget_s:
                    break
        # zero blocks
        for bs in (8, 2, 1):
            i = 0
            while i + bs <= len(best):
                if any(best[i:i + bs]):
                    cand = best[:i] + [0] * bs + best[i + bs:]
                    r = test(cand)
                    if r and better(cand, r):
                        best, best_r, improved = r['decisions'], r, True
                i += bs
        # lower single values
        for i in range(len(best)):
            if i >= len(best):
                break
            v = best[i]
            for nv in (v // 2, v - 1):
                if 0 <= nv < v and i < len(best) and best[i] == v:
                    cand = best[:i] + [nv] + best[i + 1:]
                    r = test(cand)
                    if r and better(cand, r):
                        best, best_r, improved = r['decisions'], r, True
                        break
        if time.time() - t0 > budget_s or replays[0] >= max_replays:
            break
    # strip trailing zeros (replay treats exhaustion as 0)
    while best and best[-1] == 0:
        best = best[:-1]
    return best, replays[0]


def write_replay(module, tier, viol, decisions, base_seed):
    r = execute(module, tier, decisions=decisions, preset=viol.get('preset'),
                want_trace=True)
    v = r['violation']
    if not v or (v[0], v[1]) != (viol['clause'], viol['key']):
        raise HarnessError('minimised decisions do not reproduce %r (got %r)' %
                           ((viol['clause'], viol['key']), v))
    # determinism: twice in-process
    r2 = execute(module, tier, decisions=decisions, preset=viol.get('preset'))
    if r2['digest'] != r['digest']:
        raise HarnessError('nondeterministic replay for %s: %s vs %s' %
                           (viol['clause'], r['digest'], r2['digest']))
    os.makedirs(REPLAYS(), exist_ok=True)
    tag = hashlib.sha1((v[0] + '|' + v[1]).encode()).hexdigest()[:8]
    path = os.path.join(REPLAYS(), '%s-%d-%s.json' % (module.PROPERTY, base_seed, tag))
    doc = {
        'property': module.PROPERTY, 'clause': v[0], 'key': v[1], 'violation': v[2],
        'seed': viol.get('seed'), 'run_index': viol.get('run_index'), 'tier': tier,
        'preset': viol.get('preset'), 'config': r['config'], 'decisions': decisions,
        'trace': r['trace'][-200:], 'digest': r['digest'],
        'repo': REPO, 'python': sys.version.split()[0],
    }
    with open(path, 'w') as f:
        json.dump(doc, f, indent=1, default=repr)
    return path


def run_history(prop, tier, base_seed, indices):
    """Runs the given run indices one after the other in THIS process (which must be fresh)
    and returns the result of the last one.  Used for violations that only appear when state
    leaked from earlier simulated runs of the same process (e.g. a mutable default argument
    in the code under test)."""
    module = _import_check(prop)
    flat = None
    r = None
    for i in indices:
        preset = None
        if i >= 10**9:
            if flat is None:
                flat = []
                for name, plist in module.sweep(tier):
                    flat.extend(plist)
            preset = flat[i - 10**9]
        r = execute(module, tier, seed=run_seed(base_seed, prop, i), preset=preset, want_trace=True)
    return r


def history_in_subprocess(prop, tier, base_seed, indices):
    import subprocess
    env = dict(os.environ)
    p = subprocess.run([sys.executable, os.path.join(VERIF, 'check'), prop, '--history',
                        '%d' % base_seed, tier, ','.join(str(i) for i in indices)],
                       env=env, capture_output=True, text=True, cwd=VERIF, timeout=600)
    for line in p.stdout.splitlines():
        if line.startswith('HISTORY-RESULT '):
            return json.loads(line[len('HISTORY-RESULT '):])
    return None


def try_history(prop, tier, base_seed, viol):
    """-> replay path or None"""
    full = viol.get('history')
    if not full:
        return None
    if viol.get('history_run') is not None and full[-1] != viol['history_run']:
        return None
    target = [viol['clause'], viol['key']]
    res = history_in_subprocess(prop, tier, base_seed, full)
    if not res or (res.get('violation') or [None, None])[:2] != target:
        return None
    best = full
    k = 1
    while k < len(full):
        cand = full[-(k + 1):]
        r = history_in_subprocess(prop, tier, base_seed, cand)
        if r and (r.get('violation') or [None, None])[:2] == target:
            best, res = cand, r
            break
        k *= 2
    again = history_in_subprocess(prop, tier, base_seed, best)
    if not again or again.get('digest') != res.get('digest'):
        return None
    os.makedirs(REPLAYS(), exist_ok=True)
    tag = hashlib.sha1((target[0] + '|' + target[1]).encode()).hexdigest()[:8]
    path = os.path.join(REPLAYS(), '%s-%d-%s.json' % (prop, base_seed, tag))
    doc = {'property': prop, 'kind': 'history', 'clause': target[0], 'key': target[1],
           'violation': res['violation'][2], 'base_seed': base_seed, 'tier': tier,
           'run_indices': best, 'digest': res['digest'], 'trace': res.get('trace', [])[-120:],
           'note': 'the violation appears only when these simulated runs execute one after the '
                   'other in one fresh process: state of the code under test leaks from one '
                   'run (connection) to the next'}
    with open(path, 'w') as f:
        json.dump(doc, f, indent=1, default=repr)
    return path


def replay_file(prop, path):
    module = _import_check(prop)
    with open(path) as f:
        doc = json.load(f)
    if doc.get('kind') == 'stuck':
        # a hang of the worker processes: reproduced by running the tier again under its base seed
        os.environ['VERIF_SEED'] = str(doc['base_seed'])
        return _check_main(prop, doc.get('tier', 'quick'))
    if doc.get('kind') == 'history':
        r = run_history(prop, doc.get('tier', 'quick'), doc['base_seed'], doc['run_indices'])
        v = r['violation']
        print('digest', r['digest'], '(expected %s)' % doc.get('digest'))
        if v and [v[0], v[1]] == [doc['clause'], doc['key']]:
            print('violation: %s [%s] %s' % v)
            print('VIOLATION property=%s replay=%s' % (prop, path))
            return 1
        print('no violation on replay')
        return 0
    r = execute(module, doc.get('tier', 'quick'), decisions=doc['decisions'],
                preset=doc.get('preset'), want_trace=True)
    for line in r['trace'][-80:]:
        print('  ' + line)
    v = r['violation']
    print('digest', r['digest'], '(expected %s)' % doc.get('digest'))
    if v:
        print('violation: %s [%s] %s' % v)
        same = (v[0], v[1]) == (doc['clause'], doc['key'])
        print('same violation class as recorded: %s; same digest: %s' %
              (same, r['digest'] == doc.get('digest')))
        print('VIOLATION property=%s replay=%s' % (prop, path))
        return 1
    print('no violation on replay')
    return 0


# ---------------------------------------------------------------------------------------
# driver
def drive(prop, tier, base_seed, nruns, budget_s, workers=None, sweep=True):
    t0 = time.time()
    module = _import_check(prop)
    workers = workers or int(os.environ.get('VERIF_WORKERS', '16'))
    scratch = os.path.join(scratch_base(), 'txdbus-sim-%d' % os.getpid())
    os.environ['VERIF_SCRATCH'] = scratch
    deadline = t0 + budget_s
    ctx = multiprocessing.get_context('fork')
    total = {
        'runs': 0, 'faults': Counter(), 'probes': Counter(), 'scheds': set(),
        'nontrivial_scheds': set(), 'states': set(), 'sim_seconds': 0.0, 'steps': 0,
        'violations': {}, 'known': Counter(), 'samples': [], 'errors': [],
    }
    sweeps = {}
    jobs = []
    presets = []
    if sweep and hasattr(module, 'sweep'):
        for name, plist in module.sweep(tier):
            sweeps[name] = len(plist)
            presets.extend(plist)
    presets = [(10**9 + i, p) for i, p in enumerate(presets)]
    chunk = max(20, min(400, nruns // (workers * 4) or 20))
    with ProcessPoolExecutor(max_workers=workers, mp_context=ctx) as ex:
        futs = []
        preset_chunks = []
        if presets:
            if tier == 'quick':
                pc = max(1, len(presets) // (workers * 2))
                for i in range(0, len(presets), pc):
                    futs.append(ex.submit(batch, prop, tier, base_seed, 0, 0, deadline,
                                          presets[i:i + pc]))
            else:
                # thorough: the (large) sweeps share the budget with the seeded search; they
                # are handed out in small chunks, alternating with seeded batches
                pc = 2000
                preset_chunks = [presets[i:i + pc] for i in range(0, len(presets), pc)]
        nxt = 0
        if tier == 'quick':
            while nxt < nruns:
                c = min(chunk, nruns - nxt)
                futs.append(ex.submit(batch, prop, tier, base_seed, nxt, c, deadline))
                nxt += c
            pending = list(futs)
            try:
                for f in as_completed(pending, timeout=budget_s + 120):
                    _merge(total, f.result())
            except TimeoutError:
                # workers that neither finish nor honour their per-run wall limit are stuck in
                # a loop no signal handler interrupts (inside one C call): kill them - leaving the
                # pool would otherwise wait for them for ever - and report the hang
                stuck = [f for f in pending if not f.done()]
                for p in list(getattr(ex, '_processes', {}).values()):
                    try:
                        p.kill()
                    except Exception:
                        pass
                ex.shutdown(wait=False, cancel_futures=True)
                raise WorkersStuck(len(stuck), budget_s + 120)
        else:
            # thorough: keep submitting until the budget is used up
            pending = set(futs)
            turn = 0
            while True:
                while len(pending) < workers * 2 and time.time() < deadline - 2:
                    turn += 1
                    if preset_chunks and turn % 2:
                        pending.add(ex.submit(batch, prop, tier, base_seed, 0, 0, deadline,
                                              preset_chunks.pop(0)))
                    else:
                        pending.add(ex.submit(batch, prop, tier, base_seed, nxt, chunk,
                                              deadline))
                        nxt += chunk
                if not pending:
                    break
                done = []
                for f in list(pending):
                    if f.done():
                        done.append(f)
                if not done:
                    time.sleep(0.05)
                    continue
                for f in done:
                    pending.discard(f)
                    _merge(total, f.result())
                if len(total['violations']) >= 5:
                    deadline = min(deadline, time.time())
    if preset_chunks:
        sweeps['(not completed within the budget)'] = sum(len(c) for c in preset_chunks)
    total['sweeps'] = sweeps
    total['wall_s'] = time.time() - t0
    return module, total


class WorkersStuck(Exception):
    def __init__(self, n, secs):
        Exception.__init__(self, '%d batches unfinished after %d s' % (n, secs))
        self.n, self.secs = n, secs


def _merge(total, a):
    total['runs'] += a['runs']
    total['faults'].update(a['faults'])
    total['probes'].update(a['probes'])
    total['scheds'].update(a['scheds'])
    total['nontrivial_scheds'].update(a['nontrivial_scheds'])
    if len(total['states']) < 200000:
        total['states'].update(a['states'])
    total['sim_seconds'] += a['sim_seconds']
    total['steps'] += a['steps']
    total['known'].update(a['known'])
    total['errors'].extend(a['errors'])
    total['samples'].extend(a['samples'][:1])
    # keep a few, seeded runs before sweep presets
    total['samples'].sort(key=lambda x: (x.get('preset') is not None, x['run_index']))
    del total['samples'][4:]
    for kk, v in a['violations'].items():
        if kk not in total['violations']:
            total['violations'][kk] = v
        else:
            t = total['violations'][kk]
            t['count'] += v['count']
            alts = t.get('alternates', []) + [{k: v[k] for k in ('seed', 'run_index', 'preset', 'decisions')}] \
                + v.get('alternates', [])
            t['alternates'] = sorted(alts, key=lambda a: len(a['decisions']))[:6]
            if len(v.get('history', [])) < len(t.get('history', [])):
                t['history'] = v['history']
                t['history_run'] = v['run_index']


def write_evidence(module, tier, base_seed, total, nviol):
    prop = module.PROPERTY
    wall = total['wall_s']
    cov = {
        'evaluations': total['runs'],
        'distinct_nontrivial': len(total['nontrivial_scheds']),
        'rule': getattr(module, 'RULE', '') + ' | distinct = distinct digests of the '
                '(action kind, target, boundary class) sequence of a run; non-trivial = '
                'the run contained at least one non-FIFO scheduling decision, split read, '
                'or fired fault',
        'samples': total['samples'][:3],
        'distinct_schedules': len(total['scheds']),
        'distinct_states': len(total['states']),
        'state_measure': getattr(module, 'STATE_MEASURE', ''),
        'runs_per_hour': int(total['runs'] / wall * 3600) if wall > 0 else 0,
        'sim_seconds': round(total['sim_seconds'], 3),
        'steps': total['steps'],
        'faults_fired': dict(total['faults']),
        'probes': dict(total['probes']),
        'probe_gaps': [p for p in getattr(module, 'PROBES', [])
                       if not total['probes'].get(p)],
        'runs_ended_at_known_finding': {'%s | %s' % k: n for k, n in total['known'].items()},
        'sweeps': total.get('sweeps', {}),
        'components': getattr(module, 'COMPONENTS', {}),
        'exhaustive': False,
        'workers': int(os.environ.get('VERIF_WORKERS', '16')),
    }
    doc = {
        'property_id': prop, 'tier': tier, 'seed': base_seed,
        'level': getattr(module, 'LEVEL', 'exploration'),
        'coverage': cov,
        'assumptions': getattr(module, 'ASSUMPTIONS', []),
        'wall_s': round(wall, 2),
        'violations': nviol,
    }
    evdir = os.environ.get('VERIF_EVIDENCE_DIR') or os.path.join(VERIF, 'evidence')
    os.makedirs(evdir, exist_ok=True)
    path = os.path.join(evdir, prop + '.json')
    tmp = path + '.tmp'
    with open(tmp, 'w') as f:
        json.dump(doc, f, indent=1, default=repr)
    os.replace(tmp, path)
    return path


def check_main(prop, tier, replay=None):
    scratch = os.path.join(scratch_base(), 'txdbus-sim-%d' % os.getpid())
    os.environ['VERIF_SCRATCH'] = scratch
    try:
        if replay:
            return replay_file(prop, replay)
        return _check_main(prop, tier)
    finally:
        import shutil
        shutil.rmtree(scratch, ignore_errors=True)


def _check_main(prop, tier):
    base_seed = int(os.environ.get('VERIF_SEED', '0') or 0)
    module = _import_check(prop)
    if tier == 'quick':
        nruns = int(os.environ.get('VERIF_RUNS', getattr(module, 'QUICK_RUNS', 4000)))
        budget = float(os.environ.get('VERIF_BUDGET_S', getattr(module, 'QUICK_BUDGET_S', 90)))
    else:
        nruns = 10**9
        budget = float(os.environ.get('VERIF_BUDGET_S', getattr(module, 'THOROUGH_BUDGET_S', 600)))
    try:
        module, total = drive(prop, tier, base_seed, nruns, budget)
    except WorkersStuck as e:
        os.makedirs(REPLAYS(), exist_ok=True)
        path = os.path.join(REPLAYS(), '%s-%d-stuck.json' % (prop, base_seed))
        with open(path, 'w') as f:
            json.dump({'property': prop, 'kind': 'stuck', 'clause': prop + '/hang', 'key': 'workers-stuck',
                       'base_seed': base_seed, 'tier': tier,
                       'violation': 'worker processes did not finish within %d s and ignored their per-run '
                                    'wall limit (non-termination inside one C call); re-run the tier '
                                    'with this base seed to reproduce' % e.secs}, f, indent=1)
        print('violation: %s/hang [workers-stuck] %s' % (prop, e))
        print('VIOLATION property=%s replay=%s' % (prop, path))
        return 1
    known = load_known()
    rc_ = 0
    if total['errors']:
        print('HARNESS ERROR in %d run(s); first:\n%s' % (len(total['errors']),
                                                          total['errors'][0]))
        rc_ = 2
    for k in known:
        if k.get('status') == 'known' and k.get('property') == prop:
            n = total['known'].get((k['clause'], k['key']), 0)
            print('KNOWN-FINDING: property=%s %s [%s | %s] (reached by %d runs)' %
                  (prop, k.get('what', ''), k['clause'], k['key'], n))
    nviol = 0
    viols = sorted(total['violations'].values(), key=lambda v: (v['clause'], v['key']))
    for v in viols[:5]:
        try:
            dec, nrep = shrink(module, tier, v, budget_s=45)
            if dec is None:
                # the first instance may depend on state leaked from earlier runs of its worker:
                # try the other recorded instances of the same violation
                for alt in v.get('alternates', []):
                    v2 = dict(v)
                    v2.update(alt)
                    dec, nrep = shrink(module, tier, v2, budget_s=30)
                    if dec is not None:
                        v = v2
                        break
            if dec is None:
                hp = try_history(prop, tier, base_seed, v)
                if hp:
                    nviol += 1
                    print('violation: %s [%s] %s (seen in %d runs; reproduces only as a sequence '
                          'of runs in one process: state leaks between simulated runs)'
                          % (v['clause'], v['key'], v['msg'][:300], v['count']))
                    print('VIOLATION property=%s replay=%s' % (prop, hp))
                    continue
                print('HARNESS ERROR: violation %s [%s] did not reproduce from its own '
                      'decision list (seed %s run %s)' % (v['clause'], v['key'], v['seed'],
                                                          v['run_index']))
                rc_ = 2
                continue
            path = write_replay(module, tier, v, dec, base_seed)
        except HarnessError as e:
            print('HARNESS ERROR: %s' % e)
            rc_ = 2
            continue
        except Exception as e:
            print('HARNESS ERROR while minimising %s [%s]: %r' % (v['clause'], v['key'], e))
            rc_ = 2
            continue
        nviol += 1
        print('violation: %s [%s] %s (seen in %d runs; minimised to %d decisions in %d '
              'replays)' % (v['clause'], v['key'], v['msg'][:300], v['count'], len(dec), nrep))
        print('VIOLATION property=%s replay=%s' % (prop, path))
    if len(viols) > 5:
        print('(%d further distinct violation keys not minimised)' % (len(viols) - 5))
    ev = write_evidence(module, tier, base_seed, total, nviol)
    print('%s %s: %d runs (%d distinct schedules, %d non-trivial, %d abstract states) in '
          '%.1fs; faults %s; evidence %s' % (
              prop, tier, total['runs'], len(total['scheds']),
              len(total['nontrivial_scheds']), len(total['states']), total['wall_s'],
              dict(total['faults']), ev))
    if nviol:
        return 1
    return rc_
