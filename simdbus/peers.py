"""
Scripted peers: protocol-shaped objects that stand on the far end of a simulated
connection.  They speak through the reference codec, never through txdbus.
"""
from . import refcodec as rc


class DumbPeer:
    """Records what it receives; writes only what the scenario tells it to."""

    def __init__(self, name='peer'):
        self.name = name
        self.transport = None
        self.received = bytearray()
        self.lost = []
        self.fds = []

    def makeConnection(self, transport):
        self.transport = transport

    def dataReceived(self, data):
        self.received += data

    def fileDescriptorReceived(self, fd):
        self.fds.append(fd)

    def connectionLost(self, reason):
        self.lost.append(reason)


class WirePeer(DumbPeer):
    """A peer that completes the server side of the handshake with a txdbus client by
    script and then exchanges reference-coded messages.

    The authentication conversation is line based until the client sent BEGIN; after that
    every complete frame is reference-decoded and handed to on_message()."""

    def __init__(self, name='daemon', guid=b'0123456789abcdef0123456789abcdef',
                 accept=(b'EXTERNAL', b'DBUS_COOKIE_SHA1', b'ANONYMOUS'), agree_fd=True):
        DumbPeer.__init__(self, name)
        self.guid = guid
        self.accept = accept
        self.agree_fd = agree_fd
        self.authed = False
        self.lines = []
        self.linebuf = b''
        self.splitter = rc.FrameSplitter()
        self.messages = []           # decoded messages received from the client
        self.bad_frames = []         # frames the reference decoder rejects
        self.on_message = None
        self.serial = 1000
        self.first = True
        self.auth_ok = False

    def dataReceived(self, data):
        self.received += data
        if not self.authed:
            if self.first and data[:1] == b'\0':
                data = data[1:]
                self.first = False
            self.linebuf += data
            while not self.authed and b'\r\n' in self.linebuf:
                line, self.linebuf = self.linebuf.split(b'\r\n', 1)
                self.lines.append(line)
                self.auth_line(line)
            if self.authed and self.linebuf:
                rest, self.linebuf = self.linebuf, b''
                self.binary(rest)
        else:
            self.binary(data)

    def auth_line(self, line):
        w = self.transport.write
        parts = line.split(b' ')
        cmd = parts[0]
        if cmd == b'AUTH':
            mech = parts[1] if len(parts) > 1 else b''
            if mech in self.accept:
                self.auth_ok = True
                w(b'OK ' + self.guid + b'\r\n')
            else:
                w(b'REJECTED ' + b' '.join(self.accept) + b'\r\n')
        elif cmd == b'NEGOTIATE_UNIX_FD':
            w(b'AGREE_UNIX_FD\r\n' if self.agree_fd else b'ERROR not supported\r\n')
        elif cmd == b'BEGIN':
            self.authed = True
        elif cmd == b'CANCEL' or cmd == b'ERROR':
            w(b'REJECTED ' + b' '.join(self.accept) + b'\r\n')
        else:
            w(b'ERROR unknown command\r\n')

    def binary(self, data):
        for frame in self.splitter.feed(data):
            try:
                m = rc.decode_message(frame)
            except rc.CodecError as e:
                self.bad_frames.append((frame, str(e)))
                continue
            self.messages.append(m)
            if self.on_message:
                self.on_message(m)

    # -- sending ------------------------------------------------------------------------
    def next_serial(self):
        self.serial += 1
        return self.serial

    def send(self, m):
        if m.raw is None:
            m.encode()
        self.transport.write(m.raw)
        return m

    def method_return(self, reply_to, sig='', body=(), dest=None, sender='org.freedesktop.DBus',
                      little=True):
        f = {rc.F_REPLY_SERIAL: reply_to}
        if dest:
            f[rc.F_DESTINATION] = dest
        if sender:
            f[rc.F_SENDER] = sender
        return self.send(rc.Msg(rc.METHOD_RETURN, self.next_serial(), f, sig, body,
                                little=little))

    def error(self, reply_to, name, sig='', body=(), dest=None, sender='org.freedesktop.DBus',
              little=True):
        f = {rc.F_REPLY_SERIAL: reply_to, rc.F_ERROR_NAME: name}
        if dest:
            f[rc.F_DESTINATION] = dest
        if sender:
            f[rc.F_SENDER] = sender
        return self.send(rc.Msg(rc.ERROR, self.next_serial(), f, sig, body, little=little))

    def signal(self, path, iface, member, sig='', body=(), sender=':1.50', dest=None,
               little=True, serial=None):
        f = {rc.F_PATH: path, rc.F_INTERFACE: iface, rc.F_MEMBER: member}
        if sender:
            f[rc.F_SENDER] = sender
        if dest:
            f[rc.F_DESTINATION] = dest
        return self.send(rc.Msg(rc.SIGNAL, serial if serial is not None else self.next_serial(), f, sig,
                                body, little=little))

    def call(self, path, member, iface=None, sig='', body=(), sender=':1.50', dest=None,
             flags=0, little=True, serial=None):
        f = {rc.F_PATH: path, rc.F_MEMBER: member}
        if iface:
            f[rc.F_INTERFACE] = iface
        if sender:
            f[rc.F_SENDER] = sender
        if dest:
            f[rc.F_DESTINATION] = dest
        return self.send(rc.Msg(rc.METHOD_CALL, serial if serial is not None else self.next_serial(),
                                f, sig, body, flags=flags, little=little))
