"""
Independent match-rule semantics (DESIGN.md A.5) and rule-text parser, written from the
DBus specification ("Match Rules").
"""
from . import refcodec as rc

TYPE_NAMES = {'method_call': 1, 'method_return': 2, 'error': 3, 'signal': 4}


class RuleTextError(Exception):
    pass


def parse_rule(text):
    """comma separated key='value'; inside quotes everything is literal; an apostrophe is
    written as '\\'' (close quote, escaped apostrophe, open quote).  -> dict"""
    out = {}
    i = 0
    n = len(text)
    while i < n:
        j = text.find('=', i)
        if j < 0:
            raise RuleTextError('missing = after %r' % text[i:])
        key = text[i:j].strip()
        i = j + 1
        val = []
        inq = False
        while i < n:
            c = text[i]
            if inq:
                if c == "'":
                    inq = False
                else:
                    val.append(c)
                i += 1
            else:
                if c == "'":
                    inq = True
                    i += 1
                elif c == '\\' and i + 1 < n and text[i + 1] == "'":
                    val.append("'")
                    i += 2
                elif c == ',':
                    break
                else:
                    val.append(c)
                    i += 1
        if inq:
            raise RuleTextError('unterminated quote')
        if key in out:
            raise RuleTextError('duplicate key %r' % key)
        out[key] = ''.join(val)
        i += 1
    return out


def rule_dict(mtype=None, sender=None, interface=None, member=None, path=None,
              path_namespace=None, destination=None, arg=None, arg_path=None,
              arg0namespace=None):
    """constraints of an addMatch() call as the dict the rule text must express"""
    d = {}
    for k, v in (('type', mtype), ('sender', sender), ('interface', interface),
                 ('member', member), ('path', path), ('path_namespace', path_namespace),
                 ('destination', destination), ('arg0namespace', arg0namespace)):
        if v is not None:
            d[k] = v
    for idx, v in (arg or ()):
        d['arg%d' % idx] = v
    for idx, v in (arg_path or ()):
        d['arg%dpath' % idx] = v
    return d


def matches(rule, m, strict_object_path=None):
    """rule: dict as produced by rule_dict/parse_rule; m: reference Msg.
    Returns True / False, or None where the statement leaves the outcome open."""
    either = False
    for k, v in rule.items():
        if k == 'type':
            if TYPE_NAMES.get(v) != m.mtype:
                return False
        elif k == 'interface':
            if m.fields.get(rc.F_INTERFACE) != v:
                return False
        elif k == 'member':
            if m.fields.get(rc.F_MEMBER) != v:
                return False
        elif k == 'path':
            if m.fields.get(rc.F_PATH) != v:
                return False
        elif k == 'destination':
            if m.fields.get(rc.F_DESTINATION) != v:
                return False
        elif k == 'sender':
            if m.fields.get(rc.F_SENDER) != v:
                return False
        elif k == 'path_namespace':
            p = m.fields.get(rc.F_PATH)
            if p is None:
                return False
            if not (p == v or v == '/' or p.startswith(v + '/')):
                return False
        elif k.startswith('arg') and k.endswith('path'):
            idx = int(k[3:-4])
            types = rc.split_sig(m.sig)
            if idx >= len(types) or types[idx] not in ('s', 'o'):
                return False
            a = m.body[idx]
            if not (a == v or (a.endswith('/') and v.startswith(a)) or
                    (v.endswith('/') and a.startswith(v))):
                return False
        elif k.startswith('arg') and k[3:].isdigit():
            idx = int(k[3:])
            types = rc.split_sig(m.sig)
            if idx >= len(types):
                return False
            if types[idx] == 's':
                if m.body[idx] != v:
                    return False
            elif types[idx] == 'o':
                if m.body[idx] != v:
                    return False
                either = True       # an OBJECT_PATH equal to the value: not "a string"
            else:
                return False
        else:
            raise RuleTextError('unsupported key %r' % k)
    return None if either else True
