"""
Simulation kernel: the decision stream (the only source of choice), the step loop,
the event log and the node contexts.

Nothing in this module reads a real clock, the `random` module's global state or any
other ambient source of nondeterminism.  One run == one DecisionStream.
"""
import hashlib
import random
from collections import Counter


class Violation(Exception):
    """A property violation observed by an oracle.

    clause : oracle clause id, e.g. 'C04/sequence'
    key    : discriminating facts of the failure (stable under shrinking), used to match
             entries of known_findings.json
    msg    : human readable description
    """

    def __init__(self, clause, key, msg):
        Exception.__init__(self, '%s [%s] %s' % (clause, key, msg))
        self.clause = clause
        self.key = key
        self.msg = msg


class SimCancelled(BaseException):
    """What user callbacks raise when they imitate asyncio.CancelledError / GeneratorExit: a
    BaseException that is not an Exception."""


class KnownFindingReached(Exception):
    """Raised by the runner's filter when a violation matches a `known` entry."""


class HarnessError(Exception):
    """The machinery itself misbehaved; never reported as a violation."""


class DecisionStream:
    """Explore mode: draws from random.Random(seed) and records.  Replay mode: reads the
    recorded integers (exhausted or out of range -> 0, the most benign alternative)."""

    def __init__(self, seed=None, replay=None):
        self.replay = list(replay) if replay is not None else None
        self.rng = random.Random(seed) if replay is None else None
        self.pos = 0
        self.rec = []

    # -- primitive ---------------------------------------------------------------------
    def _draw(self, n, explore):
        if n <= 1:
            return 0
        if self.replay is not None:
            v = self.replay[self.pos] if self.pos < len(self.replay) else 0
            self.pos += 1
            if not (0 <= v < n):
                v = 0
        else:
            v = explore()
        self.rec.append(v)
        return v

    def choose(self, n, tag=None):
        """uniform integer in [0, n)"""
        return self._draw(n, lambda: self.rng.randrange(n))

    def weighted(self, weights, tag=None):
        """index i with probability weights[i]/sum; zero-weight alternatives are never
        drawn in explore mode but remain addressable in replay mode"""
        n = len(weights)

        def explore():
            tot = sum(weights)
            if tot <= 0:
                return 0
            x = self.rng.random() * tot
            acc = 0.0
            for i, w in enumerate(weights):
                acc += w
                if x < acc:
                    return i
            return n - 1
        return self._draw(n, explore)

    def flag(self, p, tag=None):
        """True with probability p (recorded as 1), False is the benign value 0"""
        return self._draw(2, lambda: 1 if self.rng.random() < p else 0) == 1

    def irange(self, lo, hi, tag=None):
        """integer in [lo, hi]; lo is the benign value"""
        return lo + self.choose(hi - lo + 1)

    def geometric(self, maxv, p=0.5, tag=None):
        """small numbers likely, bounded by maxv; 0 benign"""
        def explore():
            v = 0
            while v < maxv and self.rng.random() > p:
                v += 1
            return v
        return self._draw(maxv + 1, explore)

    def pick(self, seq, tag=None):
        return seq[self.choose(len(seq))]

    def pickw(self, pairs, tag=None):
        """pairs: [(item, weight)]"""
        return pairs[self.weighted([w for _, w in pairs])][0]

    def bytes(self, n):
        return bytes(self.choose(256) for _ in range(n))

    def shuffle(self, lst):
        """Fisher-Yates with recorded draws; all-zero draws leave the list unchanged"""
        lst = list(lst)
        for i in range(len(lst) - 1):
            j = i + self.choose(len(lst) - i)
            lst[i], lst[j] = lst[j], lst[i]
        return lst


class Node:
    """A simulated process: owns the process-global state a real process would own."""

    def __init__(self, name, serial_start=1, known=None):
        self.name = name
        self.serial = serial_start
        self.known = dict(known) if known is not None else None


class Sim:
    """Step loop, clock, event log.  Scenario code registers connections (net.py) and
    supplies extra actions (workload operations, deferred firings, faults)."""

    def __init__(self, ds, seams):
        self.ds = ds
        self.seams = seams
        self.now = 0.0
        self.step = 0
        self.h = hashlib.sha256()
        self.sh = hashlib.sha256()        # schedule digest
        self.trace = []
        self.faults = Counter()
        self.probes = Counter()
        self.states = set()
        self.nontrivial = False
        self.conns = []
        self.timers = []
        self.exceptions = []              # (node, where, exc) escaping into the "reactor"
        self.node_stack = []
        self.wseq = 0                     # global write sequence (FIFO order of pipes)
        self.draining = False
        self.sim_seconds = 0.0

    # -- logging: never draws, never reads a clock --------------------------------------
    def log(self, *fields):
        rec = repr(fields)
        self.h.update(rec.encode('utf-8', 'backslashreplace'))
        self.h.update(b'\n')
        if len(self.trace) < 4000:
            self.trace.append(' '.join(str(f) for f in fields))

    def sched(self, *fields):
        self.sh.update(repr(fields).encode())

    def state(self, fp):
        if len(self.states) < 512:
            self.states.add(fp)

    def fault(self, kind):
        self.faults[kind] += 1
        self.nontrivial = True

    def probe(self, name):
        self.probes[name] += 1

    def digest(self):
        return self.h.hexdigest()

    # -- node contexts ------------------------------------------------------------------
    def enter(self, node):
        self.node_stack.append(node)
        if node is not None:
            self.seams.swap_in(node)

    def leave(self):
        node = self.node_stack.pop()
        if node is not None:
            self.seams.swap_out(node)
        if self.node_stack and self.node_stack[-1] is not None:
            self.seams.swap_in(self.node_stack[-1])

    @property
    def cur_node(self):
        return self.node_stack[-1] if self.node_stack else None

    def call(self, node, fn, *a, **kw):
        """Run fn inside node's context."""
        if self.node_stack and self.node_stack[-1] is not None:
            self.seams.swap_out(self.node_stack[-1])
        self.enter(node)
        try:
            return fn(*a, **kw)
        finally:
            self.leave()

    # -- timers -------------------------------------------------------------------------
    def pending_timers(self):
        return [t for t in self.timers if not t.cancelled and not t.called]

    def next_timer(self):
        best = None
        for t in self.timers:
            if t.cancelled or t.called:
                continue
            if best is None or (t.time, t._seq) < (best.time, best._seq):
                best = t
        return best

    def fire_timer(self, t=None):
        t = t or self.next_timer()
        if t is None:
            return False
        if t.time > self.now:
            self.sim_seconds += t.time - self.now
            self.now = t.time
        self.timers.remove(t)
        t.called = 1
        self.log('timer', t._seq, round(self.now, 6))
        try:
            self.call(t._node, t.func, *t.args, **t.kw)
        except Exception as e:          # Twisted logs and carries on
            self.exceptions.append((t._node.name if t._node else None, 'timer', e))
            self.log('exc', 'timer', type(e).__name__)
        return True

    def advance(self, dt):
        """Advance the clock firing every timer that becomes due."""
        target = self.now + dt
        while True:
            t = self.next_timer()
            if t is None or t.time > target:
                break
            self.fire_timer(t)
        if target > self.now:
            self.sim_seconds += target - self.now
            self.now = target
