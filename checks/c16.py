"""
C16 - the exported-object tree seen remotely is exactly what was exported.

System: real DBusClientConnection exporting / unexporting objects of generated classes
over path sets with parents, children, grandchildren, the root and siblings sharing a
textual prefix; a scripted daemon queries Introspect, GetManagedObjects and an ordinary call
at every interesting path, with queries in flight across export/unexport steps.
Oracle: path-set model advanced at the exporter's processing instants (DESIGN.md A.8).
"""
import xml.etree.ElementTree as ET

from simdbus import gen, net, objgen, refcodec as rc
from simdbus.harness import ClientRig, check_no_exceptions, check_no_logged_errors
from simdbus.kernel import Violation
from simdbus.sched import Scheduler

PROPERTY = 'C16'
LEVEL = 'exploration'
QUICK_RUNS = 12000
QUICK_BUDGET_S = 60
THOROUGH_BUDGET_S = 600
RULE = ('export/unexport histories (2-15 steps) over 14 paths including /, /a, /a/b, /a/bc, '
        '/a/b/c, with Introspect / GetManagedObjects / ordinary calls sent to exported, '
        'unexported, intermediate and unrelated paths at scheduler-chosen instants (in flight '
        'across steps), seeded delivery interleaving and read splitting')
STATE_MEASURE = 'distinct (exported path set, query kind, queried path) at processing instants'
PROBES = ['sibling-prefix-both-exported', 'introspect-intermediate-path', 'introspect-fails',
          'gmo-with-descendants', 'gmo-root', 'query-in-flight-across-export',
          'query-in-flight-across-unexport', 'call-to-unexported', 'unexport-then-reexport', 'same-instance-reexported', 'property-assigned-after-export',
          'export-over-exported-path', 'export-call-raised', 'unexport-of-unexported-path', 'failed-export-fate-observed', 'failed-export-over-exported-path', 'ancestors-introspected-before-failing-export', 'exported-object-is-falsy', 'object-unexports-itself-from-a-call', 'export-from-inside-setObjectHandler',
          'gmo-sibling-prefix-case']
COMPONENTS = {
    'real': ['txdbus.objects.DBusObjectHandler (exportObject, unexportObject, getManagedObjects, '
             'handleMethodCallMessage)', 'txdbus.introspection.generateIntrospectionXML',
             'txdbus.objects.DBusObject.getAllProperties', 'txdbus.client.DBusClientConnection'],
    'stub': ['transport', 'daemon / remote callers (reference codec)', 'exported classes (generated)',
             'XML reading by xml.etree (independent of txdbus.introspection)'],
}
ASSUMPTIONS = ['an exportObject() call that raises (a readable property was never assigned) may leave the '
               'object exported or not, but every remote view must then agree on which; descendants '
               'listings (GetManagedObjects) that would include such an object are not judged']

PATHS = ['/', '/a', '/a/b', '/a/bc', '/a/b/c', '/x', '/a/b/c/d', '/ab', '/a_1/b2', '/a_1', '/a/b/c/d/e/f/g/h/i',
         '/a/a', '/a/ab', '/x/xy']
QUERY_PATHS = PATHS + ['/a/b/x', '/zz', '/a/bcd', '/x/y/z', '/a_1/b', '/a_']
E_UNKNOWN_OBJECT = 'org.freedesktop.DBus.Error.UnknownObject'
STD_IFACES = {'org.freedesktop.DBus.Properties', 'org.freedesktop.DBus.Introspectable',
              'org.freedesktop.DBus.Peer', 'org.freedesktop.DBus.ObjectManager'}


def below(q, p):
    """q strictly below p"""
    if p == '/':
        return q != '/'
    return q.startswith(p + '/')


def children(E, p):
    out = set()
    for q in E:
        if below(q, p):
            rest = q[len(p):] if p != '/' else q
            out.add(rest.lstrip('/').split('/')[0])
    return out


def scenario(ctx):
    ds, sim = ctx.ds, ctx.sim
    rig = ClientRig(ctx, unix=ds.flag(0.2))
    cl = rig.proto
    daemon = rig.daemon
    sched = Scheduler(ctx)

    def hook(obj, mspec, args, caller):
        if mspec.name == 'Close':
            # the usual Close / Destroy method: the object unexports itself from inside the call
            if obj.getObjectPath() in uncertain:
                return 0        # (the fate of this path is open already: leave it alone)
            sim.probe('object-unexports-itself-from-a-call')
            cl.unexportObject(obj.getObjectPath())
            return 1
        ref, txv = gen.tx_body(ds, mspec.sig_out)
        n = len(txv)
        return None if n == 0 else (txv[0] if n == 1 else tuple(txv))

    # two classes shared by all objects
    classes = []

    def build():
        for i in range(2):
            cs = objgen.class_spec(ds, 'T%d' % i, n_ifaces=1 + ds.choose(2), rich=False,
                                   props=True)
            # every class has a probe method
            cs.ifaces[0].methods.append(('Probe', '', 'i'))
            cs.methods[(cs.ifaces[0].name, 'Probe')] = objgen.MSpec(cs.ifaces[0].name, 'Probe',
                                                                    '', 'i', 'deco', False)
            cs.ifaces[0].methods.append(('Close', '', 'i'))
            cs.methods[(cs.ifaces[0].name, 'Close')] = objgen.MSpec(cs.ifaces[0].name, 'Close',
                                                                    '', 'i', 'deco', False)
            txi = objgen.build_tx_ifaces(cs)
            extra_attrs = None
            if ds.flag(0.25):
                # the exported object is also a Python container, and empty: falsy, yet exported
                extra_attrs = {'__len__': lambda self: 0}
                sim.probe('exported-object-is-falsy')
            classes.append((cs, objgen.build_class(cs, hook, txi, extra_attrs)))
    rig.call(build)

    retired = {}    # path -> record of an instance that was unexported (may be exported again)
    E = {}          # path -> dict(obj, cs, props {(iface, prop): ref value})
    E_now = E
    ever = set()
    queries = []    # dicts
    nseen = [len(rig.sent)]
    replies = {}
    pipe_dc = rig.conn.pipes[1]
    budget = [2 + ds.choose(14 * (3 if ctx.tier == 'thorough' else 1))]
    qbudget = [4 + ds.choose(30 * (3 if ctx.tier == 'thorough' else 1))]
    epoch = [0]

    def new_signals():
        new = rig.sent[nseen[0]:]
        nseen[0] = len(rig.sent)
        sigs = []
        for m in new:
            if m.mtype == rc.SIGNAL:
                sigs.append(m)
            elif m.mtype in (rc.METHOD_RETURN, rc.ERROR):
                replies.setdefault(m.fields.get(rc.F_REPLY_SERIAL), []).append(m)
        return sigs

    def op_assign():
        # a property of an exported object changes: GetManagedObjects must show the new value
        cands = [(p, k) for p in sorted(E) if p not in uncertain for k in sorted(E[p]['vals'])]
        if not cands:
            return op_export()
        p, k = cands[ds.choose(len(cands))]
        ps, _, acc = E[p]['vals'][k]
        ref, pyv = gen.prop_value(ds, ps)
        sim.log('op', 'assign', p, k[0], k[1])
        sim.probe('property-assigned-after-export')
        rig.call(setattr, E[p]['obj'], E[p]['cs'].attr(*k), pyv)
        E[p]['vals'][k] = (ps, ref, acc)
        epoch[0] += 1
        new_signals()

    def op_export():
        free = [p for p in PATHS if p not in E and p not in uncertain]
        if E and ds.flag(0.12):
            # a different object takes over a path that is still exported
            free = sorted(p for p in E if p not in uncertain)
            sim.probe('export-over-exported-path')
        if not free:
            return op_unexport()
        p = free[ds.choose(len(free))]
        if p in retired and ds.flag(0.5):
            # export the very instance that was unexported earlier
            rec = retired.pop(p)
            new_signals()
            sim.log('op', 're-export', p)
            sim.probe('same-instance-reexported')
            rig.call(cl.exportObject, rec['obj'])
            E[p] = rec
            epoch[0] += 1
            check_announce(new_signals(), 'InterfacesAdded', p, rec['cs'])
            return
        cs, klass = classes[ds.choose(len(classes))]
        vals = {}

        def mk(klass=klass, p=p, vals=vals, cs=cs):
            o = klass(p)
            for d in cs.all_ifaces():
                for pn, ps, acc, em in d.props:
                    ref, pyv = gen.prop_value(ds, ps)
                    setattr(o, cs.attr(d.name, pn), pyv)
                    vals[(d.name, pn)] = (ps, ref, acc)
            return o
        # a container: when it is told that it has been exported (setObjectHandler) it exports
        # its part, one level below, from inside that notification
        kid_path = None
        kids = [c for c in PATHS if c not in E and c not in uncertain and c != p and below(c, p)
                and c.count('/') == (p.count('/') + (0 if p == '/' else 1))]
        if p not in E and kids and ds.flag(0.12):
            kid_path = kids[ds.choose(len(kids))]
            kcs, kklass = classes[ds.choose(len(classes))]
            kvals = {}
            kid = rig.call(mk, kklass, kid_path, kvals, kcs)
            base_klass = klass

            def set_handler(self, handler, base_klass=base_klass):
                base_klass.setObjectHandler(self, handler)
                part, self._part = getattr(self, '_part', None), None
                if handler is not None and part is not None:
                    handler.exportObject(part)
            klass = type('Container' + klass.__name__, (klass,), {'setObjectHandler': set_handler})
            sim.probe('export-from-inside-setObjectHandler')
        o = rig.call(mk, klass)
        if kid_path is not None:
            o._part = kid
        new_signals()
        sim.log('op', 'export', p, kid_path)
        rig.call(cl.exportObject, o)
        if p in ever:
            sim.probe('unexport-then-reexport')
        ever.add(p)
        E[p] = {'obj': o, 'cs': cs, 'vals': vals}
        epoch[0] += 1
        sigs = new_signals()
        if kid_path is not None:
            ever.add(kid_path)
            E[kid_path] = {'obj': kid, 'cs': kcs, 'vals': kvals}
            if len(sigs) != 2:
                raise Violation('C16/announce', 'InterfacesAdded count',
                                'export of a container and its part wrote %d signals' % len(sigs))
            check_announce(sigs[:1], 'InterfacesAdded', kid_path, kcs)
            sigs = sigs[1:]
        check_announce(sigs, 'InterfacesAdded', p, cs)
        if '/a/b' in E and '/a/bc' in E:
            sim.probe('sibling-prefix-both-exported')

    uncertain = {}   # path -> {'alts': set of bool still possible, 'rec': record} (failed export)
    staged = [None]  # (path, number of queries sent) of a failing export that waits for its prelude

    def op_export_fails():
        # exportObject() of an object one of whose readable properties was never assigned: the
        # call raises.  Whether the object is exported afterwards is not stated - but calls,
        # Introspect of the object and of its ancestors must all tell the same story.
        free = [p for p in PATHS if p not in E and p not in uncertain]
        cands = [(cs, k) for cs, k in classes
                 if any(acc != 'write' and ps != 'g' for d in cs.all_ifaces() for pn, ps, acc, em in d.props)]
        if uncertain or not free or not cands:
            return op_export()
        p = free[ds.choose(len(free))]
        if E and ds.flag(0.3):
            # the failing export is for a path another object is serving: afterwards either of
            # the two serves it - the path does not fall silent
            p = sorted(E)[ds.choose(len(E))]
            sim.probe('failed-export-over-exported-path')
        cs, klass = cands[ds.choose(len(cands))]
        vals = {}
        if staged[0] is None and ds.flag(0.6):
            # first look at the ancestors of the path (whatever the library remembers about
            # them is remembered now); the failing export follows once they have answered
            anc = [a for a in QUERY_PATHS if a != p and below(p, a)]
            for a in anc[:3]:
                send_query('introspect', a)
            staged[0] = (p, len(queries))
            sim.probe('ancestors-introspected-before-failing-export')
            return
        if staged[0] is not None:
            p = staged[0][0]
            staged[0] = None
            if p in uncertain or (p in E and False):
                return op_export()

        def mk():
            o = klass(p)
            skipped = False
            for d in cs.all_ifaces():
                for pn, ps, acc, em in d.props:
                    if acc != 'write' and ps != 'g' and not skipped:
                        skipped = True
                        continue
                    ref, pyv = gen.prop_value(ds, ps)
                    setattr(o, cs.attr(d.name, pn), pyv)
                    vals[(d.name, pn)] = (ps, ref, acc)
            return o
        o = rig.call(mk)
        new_signals()
        sim.log('op', 'export-fails', p)
        try:
            rig.call(cl.exportObject, o)
            raised = False
        except Exception as e:
            raised = True
            sim.log('export-raised', type(e).__name__)
        new_signals()
        epoch[0] += 1
        uncertain[p] = {'alts': {True, False} if raised else {True},
                        'rec': {'obj': o, 'cs': cs, 'vals': vals}}
        sim.probe('export-call-raised')
        # ... and every view of the neighbourhood is asked at once
        send_query('call', p)
        send_query('introspect', p)
        for a in [a for a in QUERY_PATHS if a != p and below(p, a)][:3]:
            send_query('introspect', a)

    def op_unexport_missing():
        # clean-up running twice: unexport of a path that is not exported implies nothing
        cands = [p for p in PATHS if p not in E and p not in uncertain]
        if not cands:
            return op_unexport()
        p = cands[ds.choose(len(cands))]
        new_signals()
        sim.log('op', 'unexport-missing', p)
        try:
            rig.call(cl.unexportObject, p)
        except Exception as e:
            sim.log('unexport-raised', type(e).__name__)
        sim.probe('unexport-of-unexported-path')
        sigs = new_signals()
        if sigs:
            raise Violation('C16/announce', 'signal for a path that was not exported',
                            'unexportObject(%s), not exported, wrote %r' % (p, [s.describe() for s in sigs]))

    def op_unexport():
        ps = sorted(p for p in E if p not in uncertain)
        if not ps:
            return op_export()
        p = ps[ds.choose(len(ps))]
        cs = E[p]['cs']
        new_signals()
        sim.log('op', 'unexport', p)
        rig.call(cl.unexportObject, p)
        retired[p] = E[p]
        del E[p]
        epoch[0] += 1
        sigs = new_signals()
        check_announce(sigs, 'InterfacesRemoved', p, cs)

    def check_announce(sigs, member, path, cs):
        mine = [s for s in sigs if s.fields.get(rc.F_MEMBER) == member]
        if len(mine) != 1 or len(sigs) != 1:
            raise Violation('C16/announce', member + ' count',
                            '%s of %s wrote %d %s signals (%d signals in total)'
                            % (member, path, len(mine), member, len(sigs)))
        s = mine[0]
        if s.fields.get(rc.F_INTERFACE) != 'org.freedesktop.DBus.ObjectManager':
            raise Violation('C16/announce', 'interface', 'signal interface %r'
                            % s.fields.get(rc.F_INTERFACE))
        body = rc.plain_body(s.sig, s.body)
        if not body or body[0] != path:
            raise Violation('C16/announce', member + ' path', '%s names %r, object is %s'
                            % (member, body[:1], path))
        names = set(body[1]) if len(body) > 1 else set()
        want = set(d.name for d in cs.all_ifaces())
        if not (want <= names <= (want | STD_IFACES)):
            raise Violation('C16/announce', member + ' interfaces',
                            '%s of %s lists interfaces %r, object has %r' % (member, path, names, want))

    def send_query(kindname, p):
        kind = ('introspect', 'gmo', 'call', 'close', 'peer-other').index(kindname)
        return op_query(kind, p)

    def op_query(kind=None, p=None):
        if kind is None:
            kind = ds.weighted([3, 3, 2, 0.5, 0.7])
            p = QUERY_PATHS[ds.choose(len(QUERY_PATHS))]
            if kind == 3 and E:
                p = sorted(E)[ds.choose(len(E))]
        q = {'kind': ('introspect', 'gmo', 'call', 'close', 'peer-other')[kind], 'path': p, 'epoch': epoch[0]}
        if kind == 0:
            m = daemon.call(p, 'Introspect', 'org.freedesktop.DBus.Introspectable', sender=':1.60',
                            dest=rig.bus_name)
        elif kind == 1:
            m = daemon.call(p, 'GetManagedObjects', 'org.freedesktop.DBus.ObjectManager',
                            sender=':1.60', dest=rig.bus_name)
        elif kind == 3:
            m = daemon.call(p, 'Close', None, sender=':1.60', dest=rig.bus_name)
        elif kind == 4:
            # a member the Peer interface does not have: whether the path is exported decides
            m = daemon.call(p, 'Frobnicate', 'org.freedesktop.DBus.Peer', sender=':1.60', dest=rig.bus_name)
        else:
            # ordinary call: the probe method of whatever class is there (interface omitted)
            m = daemon.call(p, 'Probe', None, sender=':1.60', dest=rig.bus_name)
        q['serial'] = m.serial
        q['end'] = pipe_dc.total
        q['judged'] = False
        queries.append(q)
        sim.log('op', 'query', q['kind'], p)

    def extra():
        ops = []
        if rig.conn.a.state == net.OPEN:
            if budget[0] > 0:
                def op():
                    budget[0] -= 1
                    if staged[0] is not None:
                        if all(q.get('judged') for q in queries[:staged[0][1]]) and not uncertain \
                                and (staged[0][0] not in E or True):
                            return op_export_fails()
                        return          # (nothing else touches the tree while the prelude is out)
                    (op_export, op_unexport, op_assign, op_unexport_missing,
                     op_export_fails)[ds.weighted([6, 4, 1.5, 1, 0.6])]()
                ops.append(('tree', op))
            if qbudget[0] > 0:
                def opq():
                    qbudget[0] -= 1
                    op_query()
                ops.append(('query', opq))
        return {'op': ops}

    def expected(q, E=None):
        if E is None:
            E = E_now
        p = q['path']
        if q['kind'] in ('call', 'close'):
            return ('ok',) if p in E else ('unknown-object',)
        if q['kind'] == 'peer-other':
            return ('unknown-method',) if p in E else ('unknown-object',)
        if q['kind'] == 'introspect':
            ch = children(E, p)
            if p not in E and not ch:
                return ('fail',)
            return ('children', ch, p in E)
        if p not in E:
            return ('unknown-object',)
        objs = {}
        for qp, rec in E.items():
            if below(qp, p):
                ifs = {}
                for d in rec['cs'].all_ifaces():
                    ifs[d.name] = {pn: rec['vals'][(d.name, pn)] for pn, ps, acc, em in d.props
                                   if acc != 'write'}
                objs[qp] = ifs
        return ('objects', objs)

    def invariant():
        check_no_exceptions(sim, 'C16')
        rig.check_wire('C16')
        # queries processed in this step see the current export set
        for q in queries:
            if not q['judged'] and 'exp' not in q and q['end'] <= pipe_dc.base:
                q['exp'] = expected(q)
                q['E'] = frozenset(E)
                if uncertain:
                    # one alternative per possible fate of the export that raised
                    (up, u), = uncertain.items()
                    q['alts'] = []
                    q['unjudgeable'] = q['kind'] == 'gmo' and (q['path'] == up or below(up, q['path']))
                    for a in ([] if q['unjudgeable'] else sorted(u['alts'])):
                        Ea = dict(E)
                        if a:
                            Ea[up] = u['rec']
                        q['alts'].append((a, expected(q, Ea), frozenset(Ea), Ea[up]['cs'] if up in Ea else None))
                if q['kind'] == 'close' and q['path'] in E and q['path'] not in uncertain:
                    # processed now: from here on the path is not exported
                    retired[q['path']] = E.pop(q['path'])
                    epoch[0] += 1
                if q['epoch'] != epoch[0]:
                    sim.probe('query-in-flight-across-' +
                              ('export' if len(E) else 'unexport'))
                sim.state((tuple(sorted(E)), q['kind'], q['path']))
        new_signals()
        for q in queries:
            if 'exp' in q and not q['judged'] and q['serial'] in replies:
                judge(q, replies[q['serial']])
                q['judged'] = True

    def judge(q, rs):
        if len(rs) != 1:
            raise Violation('C16/reply-count', q['kind'], '%d replies to one query' % len(rs))
        if 'alts' not in q:
            return judge1(q, rs)
        if q['unjudgeable']:
            return
        (up, u), = uncertain.items()
        fits = set()
        first = None
        for a, exp, Ea, cs_up in q['alts']:
            q['exp'], q['E'] = exp, Ea
            if cs_up is not None:
                cs_at[(q['serial'], up)] = cs_up
            else:
                cs_at.pop((q['serial'], up), None)
            try:
                judge1(q, rs)
                fits.add(a)
            except Violation as v:
                first = first or v
        if not fits:
            raise first
        if not (u['alts'] & fits):
            raise Violation('C16/inconsistent-views', q['kind'],
                            'after exportObject(%s) raised, earlier answers imply it is %s, the '
                            'answer to %s on %s implies it is %s'
                            % (up, 'exported' if True in u['alts'] else 'not exported', q['kind'],
                               q['path'], 'exported' if True in fits else 'not exported'))
        if len(fits) == 1:
            sim.probe('failed-export-fate-observed')
        u['alts'] &= fits

    def judge1(q, rs):
        r = rs[0]
        exp = q['exp']
        p = q['path']
        Eset = sorted(q['E'])
        if exp[0] == 'unknown-object':
            if q['kind'] == 'call':
                sim.probe('call-to-unexported')
            if r.mtype != rc.ERROR or r.fields.get(rc.F_ERROR_NAME) != E_UNKNOWN_OBJECT:
                raise Violation('C16/unknown-object', q['kind'],
                                '%s on %s (exported: %r) answered %r, expected UnknownObject'
                                % (q['kind'], p, Eset, r.describe()))
            return
        if exp[0] == 'unknown-method':
            if r.mtype != rc.ERROR or r.fields.get(rc.F_ERROR_NAME) != 'org.freedesktop.DBus.Error.UnknownMethod':
                raise Violation('C16/call-exported', 'peer member',
                                'Peer.Frobnicate on exported %s answered %r, expected UnknownMethod'
                                % (p, r.describe()))
            return
        if exp[0] == 'ok':
            if r.mtype != rc.METHOD_RETURN:
                raise Violation('C16/call-exported', 'error', 'call to exported %s answered %r'
                                % (p, r.describe()))
            return
        if exp[0] == 'fail':
            sim.probe('introspect-fails')
            if r.mtype != rc.ERROR:
                raise Violation('C16/introspect-should-fail', 'reply',
                                'Introspect of %s (exported: %r) succeeded: %r'
                                % (p, Eset, r.body))
            return
        if exp[0] == 'children':
            if r.mtype != rc.METHOD_RETURN or r.sig != 's':
                raise Violation('C16/introspect-failed', 'error',
                                'Introspect of %s (exported: %r) answered %r'
                                % (p, Eset, r.describe()))
            try:
                root = ET.fromstring(r.body[0])
            except ET.ParseError as e:
                raise Violation('C16/introspect-xml', 'unparsable', 'XML does not parse: %s' % e)
            got = [n.get('name') for n in root.findall('node')]
            if len(got) != len(set(got)) or set(got) != exp[1]:
                rel = 'prefix-sibling' if any(g for g in got if g not in exp[1]) else 'missing'
                raise Violation('C16/introspect-children', rel,
                                'Introspect of %s lists children %r, exported paths %r imply %r'
                                % (p, sorted(got), Eset, sorted(exp[1])))
            if not exp[2]:
                sim.probe('introspect-intermediate-path')
            else:
                names = set(i.get('name') for i in root.findall('interface'))
                want = set(d.name for d in E_at(q, p).all_ifaces()) if E_at(q, p) else set()
                if not want <= names:
                    raise Violation('C16/introspect-interfaces', 'missing',
                                    'Introspect of %s lists interfaces %r, object has %r'
                                    % (p, names, want))
            return
        # objects
        if r.mtype != rc.METHOD_RETURN:
            raise Violation('C16/gmo-failed', 'error', 'GetManagedObjects on exported %s answered %r'
                            % (p, r.describe()))
        body = rc.plain_body(r.sig, r.body)[0]
        want = exp[1]
        if want:
            sim.probe('gmo-with-descendants')
        if p == '/':
            sim.probe('gmo-root')
        if any(x.startswith(p) and not below(x, p) and x != p for x in q['E']):
            sim.probe('gmo-sibling-prefix-case')
        if set(body) != set(want):
            extra_ = sorted(set(body) - set(want))
            raise Violation('C16/gmo-objects',
                            'extra: not a descendant' if extra_ else 'missing',
                            'GetManagedObjects(%s) reports %r, exported %r imply %r'
                            % (p, sorted(body), Eset, sorted(want)))
        for qp, ifs in want.items():
            got_ifs = body[qp]
            if not (set(ifs) <= set(got_ifs) <= (set(ifs) | STD_IFACES)):
                raise Violation('C16/gmo-interfaces', 'interfaces',
                                'GetManagedObjects(%s)[%s] lists %r, object has %r'
                                % (p, qp, sorted(got_ifs), sorted(ifs)))
            for iname, props in ifs.items():
                gp = got_ifs[iname]
                if set(gp) != set(props):
                    raise Violation('C16/gmo-properties', 'names',
                                    '%s %s: properties %r, readable ones are %r'
                                    % (qp, iname, sorted(gp), sorted(props)))
                for pn, (ps, ref, acc) in props.items():
                    if rc.canon(gp[pn]) != rc.canon(rc.plain(ps, ref)):
                        raise Violation('C16/gmo-properties', 'value',
                                        '%s %s.%s = %r, assigned %r' % (qp, iname, pn, gp[pn], ref))

    cs_at = {}

    def E_at(q, p):
        return cs_at.get((q['serial'], p))

    # remember the class of each path at the processing instant
    orig_expected = expected

    def expected_wrap(q, Ex=None):
        for p, rec in (E if Ex is None else Ex).items():
            cs_at[(q['serial'], p)] = rec['cs']
        return orig_expected(q, Ex)
    expected = expected_wrap      # noqa: F811

    op_export()
    sched.run(500 * (3 if ctx.tier == 'thorough' else 1), extra, invariant)
    budget[0] = 0
    qbudget[0] = 0
    ok = sched.drain(500 * (3 if ctx.tier == 'thorough' else 1), None, invariant)
    if not ok:
        raise Violation('C16/liveness', 'no quiescence', 'drain did not reach quiescence')
    if rig.conn.a.state == net.OPEN:
        for q in queries:
            if 'exp' in q and not q['judged']:
                raise Violation('C16/no-reply', q['kind'], '%s on %s got no reply'
                                % (q['kind'], q['path']))
    check_no_logged_errors(ctx, 'C16')
