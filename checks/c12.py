"""
C12 - a signal reaches exactly the callbacks whose match rule it satisfies.

(a) client router against a scripted daemon: histories of addMatch / delMatch with signals
in flight; (b) proxy subscriptions (notifyOnSignal / cancelSignalNotification) with right
and wrong signal signatures.  Some callbacks raise.
Oracle: an independent matcher written from the specification decides, for every delivered
signal and every rule registered at that processing instant, whether the callback must run;
the AddMatch / RemoveMatch texts read off the wire are parsed by an independent parser and
must express the same constraints.  (The built-in bus's AddMatch is exercised by C14.)
"""
import functools

from simdbus import gen, matchref, net, refcodec as rc
from simdbus.harness import ClientRig, Obs, check_no_exceptions, exc_key
from simdbus.kernel import SimCancelled, Violation
from simdbus.sched import Scheduler

PROPERTY = 'C12'
LEVEL = 'exploration'
QUICK_RUNS = 30000
QUICK_BUDGET_S = 60
THOROUGH_BUDGET_S = 900
RULE = ('1-6 match rules over {type, interface, member, path, path_namespace, destination, '
        'argN, argNpath} and proxy subscriptions, added and removed while 1-15 signals '
        '(matching, near-miss on one key, sibling paths sharing a prefix, missing / non-string '
        '/ object-path arguments, argument paths with and without trailing slash) are in '
        'flight; seeded interleaving of deliveries and operations; some callbacks raise')
STATE_MEASURE = 'distinct (rule key set, near-miss kind, matched?) triples at processing instants'
PROBES = ['signal-matches-some-rule', 'near-miss-path-sibling', 'near-miss-namespace-sibling',
          'arg-missing', 'arg-non-string', 'argpath-trailing-slash-rule', 'argpath-trailing-slash-arg',
          'type-constraint-other', 'signal-while-add-pending', 'signal-while-del-pending',
          'signal-after-removal', 'callback-raised', 'callback-without-a-name', 'subscription-cancelled-twice', 'subscription-cancelled-before-the-reply', 'two-senders-same-serial-back-to-back', 'addmatch-refused', 'rule-cancelled-from-its-callback', 'callable-shared-by-rules', 'shared-callable-ran-per-rule', 'proxy-signal-right-signature',
          'proxy-signal-wrong-signature', 'two-rules-one-signal', 'apostrophe-in-value',
          'empty-body-with-arg-rule', 'proxy-subscription-without-interface',
          'same-rule-id-on-two-connections']
COMPONENTS = {
    'real': ['txdbus.router.MessageRouter / Rule.match', 'txdbus.client.DBusClientConnection '
             '(addMatch, delMatch, signalReceived)', 'txdbus.objects.RemoteDBusObject '
             '(notifyOnSignal, cancelSignalNotification)', 'txdbus.message / marshal'],
    'stub': ['transport', 'daemon and signal emitters (reference codec)',
             'independent matcher + rule-text parser (simdbus/matchref.py)'],
}
ASSUMPTIONS = ['sender and arg0namespace constraints are outside the statement and not generated',
               'an invocation between the call to delMatch and the completion of its Deferred is '
               'allowed; so is none while an addMatch is still pending',
               'an OBJECT_PATH argument equal to an argN value may or may not match']

PATHS = ['/a', '/a/b', '/a/bc', '/', '/x/y', '/a/b/c']
IFACES = ['org.sim.I1', 'org.sim.I2']
MEMBERS = ['Changed', 'Tick']
DESTS = [':1.42', ':1.99']
ARGVALS = ['foo', 'bar', '/a/b', '/a/', "it's", 'a,b', '']
ARGPATHS = ['/a/', '/a/b', '/a/b/', '/', '/a/bc']


def gen_rule(ds):
    r = {}
    if ds.flag(0.5):
        r['mtype'] = ds.pickw([('signal', 5), ('method_call', 1), ('error', 0.5)])
    if ds.flag(0.5):
        r['interface'] = ds.pick(IFACES)
    if ds.flag(0.5):
        r['member'] = ds.pick(MEMBERS)
    k = ds.choose(3)
    if k == 1:
        r['path'] = ds.pick(PATHS)
    elif k == 2:
        r['path_namespace'] = ds.pick(PATHS)
    if ds.flag(0.15):
        r['destination'] = ds.pick(DESTS)
    if ds.flag(0.35):
        n = 1 + ds.choose(2)
        idxs = ds.shuffle([0, 1, 2])[:n]
        r['arg'] = [(i, ds.pickw([(v, 3 if v not in ("it's", 'a,b', '') else 0.4) for v in ARGVALS]))
                    for i in sorted(idxs)]
    if ds.flag(0.3):
        taken = set(i for i, _ in r.get('arg', []))
        free = [i for i in (0, 1, 2) if i not in taken or ds.flag(0.3)]
        if free:
            r['arg_path'] = [(ds.pick(free), ds.pick(ARGPATHS))]
    if ds.flag(0.08):
        # argument indices run up to 63: a two-digit one
        i = ds.pick([10, 11, 12, 20, 63])
        if ds.flag(0.7):
            r['arg'] = sorted(r.get('arg', []) + [(i, ds.pick(ARGVALS[:4]))])
        else:
            r['arg_path'] = r.get('arg_path', []) + [(i, ds.pick(ARGPATHS))]
    return r


def gen_signal(ds, rules, sim):
    """a signal derived from a rule (satisfying it), then possibly mutated on one key"""
    tmpl = ds.pick(rules) if rules and ds.flag(0.85) else {}
    path = tmpl.get('path') or ds.pick(PATHS)
    if 'path_namespace' in tmpl:
        ns = tmpl['path_namespace']
        path = ds.pick([ns, (ns if ns != '/' else '') + '/k', (ns if ns != '/' else '') + '/k/l'])
    iface = tmpl.get('interface') or ds.pick(IFACES)
    member = tmpl.get('member') or ds.pick(MEMBERS)
    dest = tmpl.get('destination')
    nargs = ds.choose(4)
    types, vals = [], []
    width = 1 + max([2] + [i for i, _ in tmpl.get('arg', [])] + [i for i, _ in tmpl.get('arg_path', [])])
    for i in range(width):
        types.append('s')
        vals.append(ds.pick(ARGVALS[:4]))
    for i, v in tmpl.get('arg', []):
        vals[i] = v
        nargs = max(nargs, i + 1)
    for i, v in tmpl.get('arg_path', []):
        k = ds.choose(4)
        vals[i] = [v, v + ('x' if not v.endswith('/') else 'x/y'), v.rstrip('/') or '/',
                   (v.rsplit('/', 1)[0] + '/') if v.count('/') > 1 else v][k]
        if ds.flag(0.5):
            types[i] = 'o'
            if vals[i] != '/' and vals[i].endswith('/'):
                types[i] = 's'
        nargs = max(nargs, i + 1)
    mut = ds.weighted([5, 1, 1, 1, 1, 1, 1, 1, 1])
    kind = 'none'
    if mut == 1:
        path = ds.pick([path + 'x' if path != '/' else '/x', (path if path != '/' else '') + '/child',
                        path.rsplit('/', 1)[0] or '/'])
        kind = 'path'
    elif mut == 2:
        iface = IFACES[1 - IFACES.index(iface)]
        kind = 'iface'
    elif mut == 3:
        member = MEMBERS[1 - MEMBERS.index(member)]
        kind = 'member'
    elif mut == 4:
        dest = ds.pick([None, ':1.99', ':1.42'])
        kind = 'dest'
    elif mut == 5 and nargs:
        nargs = ds.choose(nargs)
        kind = 'fewer-args'
    elif mut == 6 and nargs:
        i = ds.choose(nargs)
        types[i] = ds.pick(['i', 'o', 'as'])
        vals[i] = {'i': 7, 'o': vals[i] if vals[i].startswith('/') and (vals[i] == '/' or not vals[i].endswith('/')) and "'" not in vals[i] and ',' not in vals[i] else '/a/b', 'as': ['foo']}[types[i]]
        kind = 'arg-type'
    elif mut == 7 and nargs:
        i = ds.choose(nargs)
        vals[i] = ds.pick(ARGVALS + ARGPATHS)
        if types[i] == 'o' and not (vals[i].startswith('/') and (vals[i] == '/' or not vals[i].endswith('/')) and "'" not in vals[i]):
            types[i] = 's'
        kind = 'arg-value'
    elif mut == 8:
        nargs = 0
        kind = 'no-body'
    for i in range(nargs):
        if types[i] == 'o':
            v = vals[i]
            if not (v.startswith('/') and (v == '/' or not v.endswith('/')) and '//' not in v
                    and all(ch.isalnum() or ch in '/_' for ch in v)):
                types[i] = 's'
    sig = ''.join(types[:nargs])
    body = vals[:nargs]
    return path, iface, member, dest, sig, body, kind


def scenario(ctx):
    ds, sim = ctx.ds, ctx.sim
    rig = ClientRig(ctx, unix=ds.flag(0.2))
    cl = rig.proto
    daemon = rig.daemon
    sched = Scheduler(ctx)
    pipe_dc = rig.conn.pipes[1]

    rules = []       # dicts: spec, rdict, state ('adding','active','deleting','gone'), hits, raises
    frames = []      # daemon->client frames in stream order: (end, kind, payload)
    invoked = []     # (rule index, signal serial, args)
    budget = [3 + ds.choose(20 * (3 if ctx.tier == 'thorough' else 1))]
    nseen = [len(rig.sent)]
    pending_calls = {}   # serial of AddMatch/RemoveMatch call -> (rule idx, 'add'|'del', text)

    d_sig = gen.IfaceDesc('org.sim.I1')
    d_sig.signals = [('Changed', 'ss'), ('Tick', '')]
    d_sig2 = gen.IfaceDesc('org.sim.I2')
    d_sig2.signals = [('Changed', 's'), ('Tick', '')]
    proxy = [None]

    def setup():
        from txdbus import interface as ti
        i1 = gen.tx_interface(d_sig, register=False)
        i2 = gen.tx_interface(d_sig2, register=False)
        d = cl.getRemoteObject('org.sim.svc', '/a/b', [i1, i2])
        d.addCallback(lambda p: proxy.__setitem__(0, p))
    rig.call(setup)

    # the daemon holds AddMatch / RemoveMatch replies back: they are scheduler actions
    held = []
    daemon_rules = []     # rule texts the daemon accepted and still holds

    def on_msg(m):
        if m.mtype == rc.METHOD_CALL and m.fields.get(rc.F_MEMBER) in ('AddMatch', 'RemoveMatch'):
            held.append(m)
            return True
        return False
    rig.handlers.append(on_msg)

    class Holder:
        def __init__(self, idx):
            self.idx = idx

        def run(self, *a):
            idx = self.idx
            invoked.append((idx, a))
            sim.log('sig-cb', idx)
            r = rules[idx]
            if r.get('oneshot') and r['state'] == 'active' and r['id'] is not None:
                # a one-shot handler: cancels its own rule from inside the callback
                r['state'] = 'deleting'
                n0 = len(rig.sent)
                if r['proxy_sig'] is not None:
                    proxy[0].cancelSignalNotification(r['id'])
                else:
                    cl.delMatch(r['id'])
                for m in rig.sent[n0:]:
                    if m.mtype == rc.METHOD_CALL and m.fields.get(rc.F_MEMBER) == 'RemoveMatch':
                        pending_calls[m.serial] = (idx, 'del')
                sim.probe('rule-cancelled-from-its-callback')
            elif r.get('oneshot') and r['state'] == 'deleting' and r['proxy_sig'] is not None:
                # a careless one-shot handler: the signal came again before the daemon confirmed
                # the removal, and it cancels again; one subscription is one RemoveMatch
                n0 = len(rig.sent)
                proxy[0].cancelSignalNotification(r['id'])
                again = [m for m in rig.sent[n0:] if m.mtype == rc.METHOD_CALL
                         and m.fields.get(rc.F_MEMBER) == 'RemoveMatch']
                sim.probe('subscription-cancelled-twice')
                if again:
                    # (raised from the invariant: the router contains what callbacks raise)
                    stashed.append(Violation('C12/removematch-call', 'second RemoveMatch for one subscription',
                                             'cancelSignalNotification(%r) called again before the reply '
                                             'wrote another RemoveMatch %r' % (r['id'], again[0].body)))
            if rules[idx]['raises']:
                sim.probe('callback-raised')
                if rules[idx]['raises'] == 2:
                    raise SimCancelled('callback %d cancelled' % idx)
                if idx % 2:
                    raise TypeError('callback %d fails: unsupported operand' % idx)
                raise RuntimeError('callback %d fails' % idx)
            if idx % 3 == 0:
                # what a handler returns is its own business (here: a Deferred nobody fires)
                from twisted.internet import defer
                return defer.Deferred()
    holders = {}
    stashed = []

    class CallableObject:
        """a callback that is an object with __call__ (no __name__)"""

        def __init__(self, h):
            self.h = h

        def __call__(self, *a):
            return self.h.run(*a)

    def mk_cb(idx):
        if idx not in holders:
            h = holders[idx] = Holder(idx)
            # a bound method, a functools.partial or a callable object
            h.form = ds.weighted([6, 1.5, 1.5])
            h.cb = [None, functools.partial(h.run), CallableObject(h)][h.form]
            if h.form:
                sim.probe('callback-without-a-name')
        h = holders[idx]
        return h.run if h.form == 0 else h.cb

    def scan_sent():
        new = rig.sent[nseen[0]:]
        nseen[0] = len(rig.sent)
        return [m for m in new if m.mtype == rc.METHOD_CALL and
                m.fields.get(rc.F_MEMBER) in ('AddMatch', 'RemoveMatch')]

    def op_add():
        idx = len(rules)
        use_proxy = proxy[0] is not None and ds.flag(0.3)
        if use_proxy:
            sname = ds.pick(['Changed', 'Tick'])
            # without interface= the first interface declaring the signal is meant; with it, that one
            which = ds.pick([None, 'org.sim.I1', 'org.sim.I2'])
            dd = d_sig2 if which == 'org.sim.I2' else d_sig
            spec = {'mtype': 'signal', 'path': '/a/b', 'member': sname, 'interface': dd.name}
            r = {'spec': spec, 'state': 'adding', 'raises': ds.weighted([6, 0.7, 0.5]), 'proxy_sig': dict(dd.signals)[sname],
                 'id': None, 'which': which, 'oneshot': ds.flag(0.15)}
            rules.append(r)
            scan_sent()
            sim.log('op', 'notifyOnSignal', sname)
            if which is None:
                sim.probe('proxy-subscription-without-interface')
                d = rig.call(proxy[0].notifyOnSignal, sname, mk_cb(idx))
            else:
                d = rig.call(proxy[0].notifyOnSignal, sname, mk_cb(idx), which)
        else:
            spec = gen_rule(ds)
            r = {'spec': spec, 'state': 'adding', 'raises': ds.weighted([6, 0.7, 0.5]), 'proxy_sig': None,
                 'id': None}
            rules.append(r)
            # one callable (a bound method: equal, not identical, on every access) may serve
            # several rules; it must then run once per satisfied rule
            earlier = [i for i, q in enumerate(rules[:-1]) if q['proxy_sig'] is None and not q.get('oneshot')]
            r['oneshot'] = ds.flag(0.15)
            if earlier and not r['oneshot'] and ds.flag(0.25):
                owner = rules[ds.pick(earlier)]['cb']
                r['cb'] = owner
                r['raises'] = rules[owner]['raises']
                sim.probe('callable-shared-by-rules')
            scan_sent()
            sim.log('op', 'addMatch', sorted(spec.items()))
            if any("'" in v for _, v in spec.get('arg', [])):
                sim.probe('apostrophe-in-value')
            d = rig.call(cl.addMatch, mk_cb(r.get('cb', idx)), **spec)
        r.setdefault('cb', idx)
        r['rdict'] = matchref.rule_dict(**spec)
        calls = scan_sent()
        if len(calls) != 1 or calls[0].fields.get(rc.F_MEMBER) != 'AddMatch':
            raise Violation('C12/addmatch-call', 'count', 'addMatch wrote %d bus calls' % len(calls))
        text = calls[0].body[0]
        r['text'] = text
        try:
            parsed = matchref.parse_rule(text)
        except matchref.RuleTextError as e:
            parsed = {'!': str(e)}
        if parsed != r['rdict']:
            diff = sorted(set(parsed.items()) ^ set(r['rdict'].items()))
            raise Violation('C12/rule-text',
                            'apostrophe in value' if any("'" in str(v) for v in r['rdict'].values())
                            else 'key ' + (diff[0][0] if diff else '?').rstrip('0123456789'),
                            'AddMatch text %r expresses %r, the rule is %r' % (text, parsed, r['rdict']))
        pending_calls[calls[0].serial] = (idx, 'add')

        def done(rid, r=r):
            r['id'] = rid
            return rid
        d.addCallback(done)
        d.addErrback(lambda f: sim.log('add-failed', idx))
        r['d'] = d
        if ds.flag(0.06):
            # the subscriber gives up before the daemon answered (d.cancel(), addTimeout): the
            # callback it handed over is never to run, whatever arrives later
            r['state'] = 'gone'
            r['cancelled'] = True
            sim.probe('subscription-cancelled-before-the-reply')
            sim.log('op', 'cancel-add', idx)
            rig.call(d.cancel)

    def op_del():
        act = [i for i, r in enumerate(rules) if r['state'] == 'active' and r['id'] is not None]
        if not act:
            return op_add()
        idx = act[ds.choose(len(act))]
        r = rules[idx]
        r['state'] = 'deleting'
        scan_sent()
        sim.log('op', 'delMatch', idx)
        if r['proxy_sig'] is not None:
            rig.call(proxy[0].cancelSignalNotification, r['id'])
        else:
            rig.call(cl.delMatch, r['id'])
        calls = scan_sent()
        if len(calls) != 1 or calls[0].fields.get(rc.F_MEMBER) != 'RemoveMatch':
            raise Violation('C12/removematch-call', 'count', 'delMatch wrote %r' % (calls,))
        if calls[0].body[0] != r['text']:
            raise Violation('C12/rule-text', 'RemoveMatch differs',
                            'RemoveMatch text %r differs from the AddMatch text %r'
                            % (calls[0].body[0], r['text']))
        pending_calls[calls[0].serial] = (idx, 'del')

    def op_signal():
        # removed and refused rules stay targets: their callbacks must stay silent
        specs = [r['spec'] for r in rules]
        path, iface, member, dest, sig, body, kind = gen_signal(ds, specs, sim)
        m = daemon.signal(path, iface, member, sig, body, sender=':1.77', dest=dest,
                          little=not ds.flag(0.15))
        frames.append((pipe_dc.total, 'signal', (m, kind)))
        sim.log('op', 'signal', path, iface, member, dest, sig, kind)
        if ds.flag(0.15):
            # every sender numbers its own messages: another sender's signal with the very same
            # serial follows at once
            path, iface, member, dest, sig, body, kind = gen_signal(ds, specs, sim)
            m2 = daemon.signal(path, iface, member, sig, body, sender=':1.78', dest=dest,
                               little=not ds.flag(0.15), serial=m.serial)
            frames.append((pipe_dc.total, 'signal', (m2, kind)))
            sim.probe('two-senders-same-serial-back-to-back')
            sim.log('op', 'signal2', path, iface, member, dest, sig, kind)

    def extra():
        ops = []
        if budget[0] > 0 and rig.conn.a.state == net.OPEN:
            def op():
                budget[0] -= 1
                k = ds.weighted([3, 1.2, 6])
                (op_add, op_del, op_signal)[k]()
            ops.append(('op', op))
        fires = []
        for i, m in enumerate(held):
            def reply(i=i, m=m):
                held.pop(i)
                text = m.body[0] if m.body else None
                if m.fields.get(rc.F_MEMBER) == 'AddMatch':
                    if ds.flag(0.12):
                        # the daemon refuses the rule
                        sim.probe('addmatch-refused')
                        daemon.error(m.serial, 'org.freedesktop.DBus.Error.LimitsExceeded', 's',
                                     ['too many match rules'], dest=rig.bus_name)
                        frames.append((pipe_dc.total, 'refusal', m.serial))
                        return
                    daemon_rules.append(text)
                elif text in daemon_rules:
                    daemon_rules.remove(text)
                else:
                    # a rule the daemon does not hold
                    daemon.error(m.serial, 'org.freedesktop.DBus.Error.MatchRuleNotFound', 's',
                                 ['no such rule'], dest=rig.bus_name)
                    frames.append((pipe_dc.total, 'refusal', m.serial))
                    return
                daemon.method_return(m.serial, dest=rig.bus_name)
                frames.append((pipe_dc.total, 'reply', m.serial))
            fires.append(('reply%d' % i, reply))
        return {'op': ops, 'fire': fires}

    ninv = [0]

    def invariant():
        if stashed:
            raise stashed[0]
        check_no_exceptions(sim, 'C12')
        rig.check_wire('C12')
        # walk the frames delivered in this step in stream order
        new_inv = invoked[ninv[0]:]
        ninv[0] = len(invoked)
        groups = []        # [(serial, sender), callbacks run] per signal handed to the client, in order
        cur = None
        for idx, args in new_inv:
            if idx == 'sig':
                cur = []
                groups.append((args, cur))
            elif cur is None:
                raise Violation('C12/wrongly-delivered', 'no signal',
                                'callback %d ran outside the processing of any signal' % idx)
            else:
                cur.append((idx, args))
        while frames and frames[0][0] <= pipe_dc.base:
            end, kind, payload = frames.pop(0)
            if kind == 'reply':
                idx, what = pending_calls.pop(payload, (None, None))
                if idx is not None and not rules[idx].get('cancelled'):
                    rules[idx]['state'] = 'active' if what == 'add' else 'gone'
                continue
            if kind == 'refusal':
                # a refused AddMatch: the rule never existed; a refused RemoveMatch: the local
                # rule may stay or go
                idx, what = pending_calls.pop(payload, (None, None))
                if idx is not None and what == 'add':
                    rules[idx]['state'] = 'gone'
                continue
            m, nearmiss = payload
            must, may = set(), set()
            for i, r in enumerate(rules):
                if r['state'] == 'gone':
                    continue
                res = matchref.matches(r['rdict'], m)
                if res is False:
                    continue
                if r['proxy_sig'] is not None:
                    if (r['proxy_sig'] or '') != (m.sig or ''):
                        sim.probe('proxy-signal-wrong-signature')
                        continue
                    sim.probe('proxy-signal-right-signature')
                if r['state'] == 'active' and res is True:
                    must.add(i)
                else:
                    may.add(i)
                    if r['state'] == 'adding':
                        sim.probe('signal-while-add-pending')
                    elif r['state'] == 'deleting':
                        sim.probe('signal-while-del-pending')
            if any(r['state'] == 'gone' and matchref.matches(r['rdict'], m) for r in rules):
                sim.probe('signal-after-removal')
            key = (m.serial, m.fields.get(rc.F_SENDER))
            got = groups.pop(0)[1] if groups and groups[0][0] == key else []
            got_ids = [g[0] for g in got]
            note_probes(m, nearmiss, must)
            # callbacks are counted per callable: one run per satisfied rule it serves
            for cb in sorted(set(got_ids) | set(rules[i]['cb'] for i in must)):
                served = [i for i, r in enumerate(rules) if r['cb'] == cb]
                lo = [i for i in served if i in must]
                hi = len(lo) + len([i for i in served if i in may])
                c = got_ids.count(cb)
                if c > hi and hi == 0:
                    r = rules[served[0]]
                    raise Violation('C12/wrongly-delivered', wrong_key(r, m),
                                    'callback of rule %d %r (state %s) ran for signal %r which '
                                    'does not satisfy it' % (served[0], r['rdict'], r['state'], m.describe()))
                if c > hi:
                    raise Violation('C12/wrongly-delivered', 'twice',
                                    'callback of rule(s) %r ran %d times for one signal which satisfies '
                                    '%d of them' % (served, c, hi))
                if c < len(lo):
                    i = lo[0]
                    if len(served) > 1:
                        sim.log('shared-callable', served, c, len(lo))
                    raise Violation('C12/not-delivered',
                                    why_key(rules[i]['rdict'], m) if len(served) == 1 else 'callable shared by rules',
                                    'signal %r satisfies rule(s) %r (%r ...) but their callback ran %d time(s)'
                                    % (m.describe(), lo, rules[i]['rdict'], c))
                if len(lo) > 1:
                    sim.probe('shared-callable-ran-per-rule')
            for idx, args in got:
                r = rules[idx]
                if r['proxy_sig'] is not None:
                    if rc.canon(list(args)) != rc.canon(rc.plain_body(m.sig, m.body)):
                        raise Violation('C12/proxy-arguments', 'args',
                                        'proxy callback got %r, signal carries %r' % (args, m.body))
            sim.state((tuple(sorted(set(k.rstrip('0123456789') for r in rules for k in r['rdict']))),
                       nearmiss, bool(must)))
        if groups:
            raise Violation('C12/harness', 'unattributed', 'signal groups left: %r' % list(groups))

    delivered_last = [None]

    def why_key(rd, m):
        special = set()
        for k in rd:
            if k.startswith('arg'):
                special.add('argNpath' if k.endswith('path') else 'argN')
            elif k in ('path_namespace', 'type'):
                special.add(k)
        return 'rule with ' + ('+'.join(sorted(special)) or 'simple keys only')

    def wrong_key(r, m):
        if r['state'] == 'gone':
            return 'after removal'
        if m is None:
            return 'unknown'
        # which single constraint fails?
        failing = []
        for k, v in r['rdict'].items():
            if matchref.matches({k: v}, m) is False:
                kk = k
                if k.startswith('arg'):
                    kk = 'argNpath' if k.endswith('path') else 'argN'
                failing.append(kk)
        if r['proxy_sig'] is not None and not failing:
            return 'proxy signature'
        return 'violated: ' + '+'.join(sorted(set(failing))) if failing else 'twice'

    def note_probes(m, nearmiss, must):
        delivered_last[0] = m
        if must:
            sim.probe('signal-matches-some-rule')
        if len(must) > 1:
            sim.probe('two-rules-one-signal')
        p = m.fields.get(rc.F_PATH)
        for r in rules:
            rd = r['rdict']
            if 'path' in rd and p != rd['path'] and p.startswith(rd['path']):
                sim.probe('near-miss-path-sibling')
            ns = rd.get('path_namespace')
            if ns and ns != '/' and p.startswith(ns) and not (p == ns or p.startswith(ns + '/')):
                sim.probe('near-miss-namespace-sibling')
            if rd.get('type') not in (None, 'signal'):
                sim.probe('type-constraint-other')
            types = rc.split_sig(m.sig)
            for k, v in rd.items():
                if k.startswith('arg') and k.endswith('path'):
                    i = int(k[3:-4])
                    if v.endswith('/'):
                        sim.probe('argpath-trailing-slash-rule')
                    if i < len(types) and types[i] in 'so' and m.body[i].endswith('/'):
                        sim.probe('argpath-trailing-slash-arg')
                elif k.startswith('arg') and k[3:].isdigit():
                    i = int(k[3:])
                    if i >= len(types):
                        sim.probe('arg-missing')
                        if not types:
                            sim.probe('empty-body-with-arg-rule')
                    elif types[i] != 's':
                        sim.probe('arg-non-string')

    orig_signal_received = cl.signalReceived

    def traced_signal_received(msig):
        invoked.append(('sig', (msig.serial, msig.sender)))
        return orig_signal_received(msig)
    cl.signalReceived = traced_signal_received

    op_add()
    sched.run(500 * (3 if ctx.tier == 'thorough' else 1), extra, invariant)
    budget[0] = 0
    ok = sched.drain(500 * (3 if ctx.tier == 'thorough' else 1), extra, invariant)
    if not ok:
        raise Violation('C12/liveness', 'no quiescence', 'drain did not reach quiescence')
    if ds.flag(0.25):
        # two more connections of the same process, each with a proxy whose first subscription
        # gets the same rule id: cancelling one must not disable cancelling the other
        sim.probe('same-rule-id-on-two-connections')
        extra_rigs = []
        for k in range(2):
            r2 = ClientRig(ctx, name='x%d' % k, bus_name=':1.%d' % (80 + k))
            hits = []
            st = {}

            def setup2(r2=r2, hits=hits, st=st):
                i1 = gen.tx_interface(d_sig, register=False)
                d = r2.proto.getRemoteObject('org.sim.svc', '/a/b', i1)
                d.addCallback(lambda p: st.__setitem__('proxy', p))
            r2.call(setup2)
            d = r2.call(st['proxy'].notifyOnSignal, 'Tick', lambda hits=hits: hits.append(1))
            d.addCallback(lambda rid, st=st: st.__setitem__('rid', rid))
            r2.calm()
            # fire and forget: a subscription made through a proxy the application does not keep
            kept = []

            def forget(r2=r2, kept=kept):
                i1 = gen.tx_interface(d_sig, register=False)
                dd = r2.proto.getRemoteObject('org.sim.svc', '/a/b/c', i1)
                dd.addCallback(lambda ro: ro.notifyOnSignal('Changed', lambda a, b: kept.append((a, b))))
            r2.call(forget)
            r2.calm()
            r2.daemon.signal('/a/b/c', 'org.sim.I1', 'Changed', 'ss', ['x', 'y'])
            r2.calm()
            if kept != [('x', 'y')]:
                raise Violation('C12/not-delivered', 'subscription of a proxy that was not kept',
                                'a subscription made through a proxy the application did not keep '
                                'received %r for one matching signal' % (kept,))
            extra_rigs.append((r2, st, hits))
        for r2, st, hits in extra_rigs:
            if 'rid' not in st:
                raise Violation('C12/addmatch-call', 'no rule id', 'notifyOnSignal did not complete')
            n0 = len([m for m in r2.sent if m.fields.get(rc.F_MEMBER) == 'RemoveMatch'])
            r2.call(st['proxy'].cancelSignalNotification, st['rid'])
            r2.calm()
            n1 = len([m for m in r2.sent if m.fields.get(rc.F_MEMBER) == 'RemoveMatch'])
            if n1 != n0 + 1:
                raise Violation('C12/removematch-call', 'second connection',
                                'cancelSignalNotification on connection %s sent %d RemoveMatch calls'
                                % (r2.conn.name, n1 - n0))
            r2.daemon.signal('/a/b', 'org.sim.I1', 'Tick')
            r2.calm()
            if hits:
                raise Violation('C12/wrongly-delivered', 'after removal (second connection)',
                                'callback ran after its subscription was cancelled')
