"""
C07 - the client speaks DBus only after the server's OK and never stalls in handshake.

System: real DBusClientConnection + real ClientAuthenticator over a transport that does or
does not provide IUNIXTransport.
Peers: (i) scripted server line sequences (bounded-exhaustive sweep + random), split
arbitrarily into reads; (ii) spec-derived reference servers for every subset of accepted
mechanisms and both answers to NEGOTIATE_UNIX_FD, with a real cookie in a scratch keyring.
Oracle: the safety monitor of DESIGN.md A.2 evaluated at every client write, attribution of
each write to the server line being processed; bounded liveness against reference servers.
"""
import binascii
import itertools
import os

from simdbus import net
from simdbus.harness import Obs, check_no_exceptions, exc_key
from simdbus.kernel import Node, Violation
from simdbus.peers import DumbPeer
from simdbus.refpeer import MECHS, RefSaslServer
from simdbus.sched import Scheduler
from simdbus.seams import KNOWN_AT_IMPORT

from txdbus import authentication, client as t_client, error as t_error

PROPERTY = 'C07'
LEVEL = 'exploration'
QUICK_RUNS = 80000
QUICK_BUDGET_S = 60
THOROUGH_BUDGET_S = 600
RULE = ('server line scripts over the authentication alphabet (all sequences of length <= 4 '
        'over 7 symbols x unix/tcp as a sweep; random scripts of up to 20 lines over 18 '
        'symbols) and reference servers (8 accepted-mechanism subsets x 2 fd answers x '
        'unix/tcp x keyring states), every script cut into reads by the seeded scheduler')
STATE_MEASURE = 'distinct (transport kind, sequence of processed line kinds, outcome) tuples'
PROBES = ['cut-inside-line', 'cut-between-cr-and-lf', 'several-lines-one-read',
          'authenticated-tcp', 'authenticated-unix-agree', 'authenticated-unix-error',
          'exhausted-closed', 'junk-closed', 'cookie-auth-completed', 'agree-without-ok',
          'bytes-after-final-line-same-read', 'keyring-with-other-entries',
          'custom-preference-order', 'home-unset', 'earlier-connection-same-process']
COMPONENTS = {
    'real': ['txdbus.authentication.ClientAuthenticator (pass-through tracing subclass on the '
             'documented IDBusAuthenticator.handleAuthMessage hook)',
             'txdbus.protocol.BasicDBusProtocol line handling', 'txdbus.client.DBusClientConnection',
             'real files in a scratch ~/.dbus-keyrings'],
    'stub': ['transport', 'server (scripted lines / spec-derived reference SASL server)',
             'getpass/pwd/HOME (synthetic user)', 'os.urandom (decision stream)'],
}
ASSUMPTIONS = ['scripted servers always eventually answer or close (txdbus has no handshake '
               'timeout and the statement does not ask for one)',
               'once the monitor sees BEGIN the scripted server stops sending lines']

GUID = b'0123456789abcdef0123456789abcdef'
ALPHABET = [
    b'REJECTED EXTERNAL DBUS_COOKIE_SHA1 ANONYMOUS',   # 0
    b'OK ' + GUID,                                      # 1
    b'DATA',                                            # 2
    b'ERROR',                                           # 3
    b'AGREE_UNIX_FD',                                   # 4
    b'OK',                                              # 5
    b'FOO bar',                                         # 6
    b'OK nothex!',                                      # 7
    b'DATA 6162',                                       # 8
    b'DATA zz',                                         # 9
    b'ERROR "some text"',                               # 10
    b'',                                                # 11
    b'REJECTED',                                        # 12
    b'OK  abcd  ',                                      # 13
    b'\xff\xfe',                                        # 14
    b'BEGIN',                                           # 15
    b'AUTH EXTERNAL',                                   # 16
    b'DATA ' + binascii.hexlify(b'org_sim_ctx 1 abcdef'),  # 17
    b'OK abc',                                          # 18 odd-length hex
    b'OK 0123 4567 89ab cdef',                          # 19 blanks between digit pairs: not a GUID
    b'OK 01\t23',                                       # 20
    b'OK 0x1234abcd',                                   # 21
    b'OK ' + GUID + b' trailing',                       # 22
    b'ok ' + GUID,                                      # 23 commands are case sensitive: junk
    b'REJECTED ANONYMOUS',                              # 24
    b'REJECTED KERBEROS_V4 SKEY',                       # 25
    b' OK ' + GUID,                                     # 26 leading blank: junk
    b'ERROR',                                           # 27
    b'OK 0123456789ABCDEF0123456789abcDEF',             # 28 upper-case hex digits are hex digits
    b'ERROR "policy 100% strict, could not parse %s"',   # 29 explanations are free text
    b'REJECTED EXTERNAL ANONYMOUS',                     # 30
    b'ERROR {0} {name} \\x41 %(mech)s',                   # 31
]
PREF = [b'EXTERNAL', b'DBUS_COOKIE_SHA1', b'ANONYMOUS']
KNOWN_CMDS = (b'REJECTED', b'OK', b'DATA', b'ERROR', b'AGREE_UNIX_FD')


def valid_guid(arg):
    a = arg.strip()
    if not a or len(a) % 2:
        return False
    try:
        binascii.unhexlify(a)
    except Exception:
        return False
    return True


class Monitor:
    """DESIGN.md A.2.  Never raises from inside txdbus: problems are collected."""

    def __init__(self, sim, unix):
        self.sim = sim
        self.unix = unix
        self.problems = []
        self.offered = []
        self.ok = False
        self.neg = False
        self.fdans = False
        self.begin = False
        self.must_close = None        # reason the connection must be closed by now
        self.cur = None               # server line being processed
        self.processed = []
        self.lines_written = 0
        self.buf = b''
        self.first = True
        self.binary = 0
        self.kinds = []
        self.pref = PREF

    def problem(self, clause, key, msg):
        self.problems.append((clause, key, msg))

    # the client starts processing a server line
    def processing(self, line):
        self.cur = line
        self.processed.append(line)
        cmd = line.split(b' ', 1)[0]
        self.kinds.append(cmd[:4].decode('latin1'))
        if self.must_close:
            self.problem('C07/not-closed', self.must_close,
                         'client went on processing %r after %s' % (line, self.must_close))
        if cmd == b'OK' and valid_guid(line[2:]):
            self.ok = True
        if self.neg and not self.fdans and (cmd == b'AGREE_UNIX_FD' or cmd == b'ERROR'):
            self.fdans = True
            self.fd_answer_line = len(self.processed)
        elif cmd in (b'REJECTED', b'ERROR'):
            if len(self.offered) >= len(self.pref):
                self.must_close = 'mechanisms exhausted'
        if cmd not in KNOWN_CMDS:
            self.must_close = 'line outside the protocol'
        if cmd == b'AGREE_UNIX_FD' and not self.ok:
            self.sim.probe('agree-without-ok')

    def wrote(self, data):
        if self.begin:
            self.binary += len(data)
            return
        self.buf += data
        if self.first and self.buf:
            if self.buf[:1] != b'\0':
                self.problem('C07/nul', 'no leading NUL', 'first byte written is %r' % self.buf[:1])
            self.buf = self.buf[1:]
            self.first = False
        while b'\r\n' in self.buf and not self.begin:
            line, self.buf = self.buf.split(b'\r\n', 1)
            self.client_line(line)
        if self.begin and self.buf:
            self.binary += len(self.buf)
            self.buf = b''

    def client_line(self, line):
        self.lines_written += 1
        cmd, _, arg = line.partition(b' ')
        if self.must_close:
            self.problem('C07/write-after-end', self.must_close,
                         'client wrote %r after %s' % (line, self.must_close))
        if cmd == b'AUTH':
            mech = arg.split(b' ')[0]
            nxt = self.pref[len(self.offered)] if len(self.offered) < len(self.pref) else None
            if mech in self.offered:
                self.problem('C07/mech-twice', mech.decode(), 'mechanism %r offered twice' % mech)
            elif mech != nxt:
                self.problem('C07/mech-order', mech.decode('latin1'),
                             'offered %r, next in preference order is %r' % (mech, nxt))
            self.offered.append(mech)
            if self.cur is not None:
                c = self.cur.split(b' ', 1)[0]
                if c not in (b'REJECTED', b'ERROR'):
                    self.problem('C07/auth-out-of-turn', c.decode('latin1'),
                                 'AUTH %r written while processing %r' % (mech, self.cur))
        elif cmd == b'NEGOTIATE_UNIX_FD':
            if not self.unix:
                self.problem('C07/negotiate', 'non-unix', 'NEGOTIATE_UNIX_FD on a non-UNIX transport')
            if not self.ok:
                self.problem('C07/negotiate', 'before OK', 'NEGOTIATE_UNIX_FD before a valid OK')
            self.neg = True
            self.fdans = False
        elif cmd == b'BEGIN':
            if not self.ok:
                self.problem('C07/begin-without-ok', 'while processing ' +
                             (self.cur or b'').split(b' ', 1)[0].decode('latin1'),
                             'BEGIN written although no OK with a valid GUID was received '
                             '(processing %r)' % (self.cur,))
            elif self.unix and not (self.neg and self.fdans):
                self.problem('C07/begin-before-fd-answer', 'unix',
                             'BEGIN written on a UNIX transport before the descriptor '
                             'negotiation was answered (processing %r)' % (self.cur,))
            self.begin = True
        elif cmd in (b'DATA', b'ERROR', b'CANCEL'):
            pass
        else:
            self.problem('C07/unknown-client-line', cmd.decode('latin1')[:20],
                         'client wrote %r' % line)


def make_authenticator(mon, pref_order=None):
    class Traced(authentication.ClientAuthenticator):
        if pref_order is not None:
            preference = list(pref_order)      # the documented way to change the order

        def handleAuthMessage(self, line):
            mon.processing(bytes(line))
            return authentication.ClientAuthenticator.handleAuthMessage(self, line)
    return Traced


class ScriptServer(DumbPeer):
    pass


def raise_problems(mon):
    if mon.problems:
        c, k, m = mon.problems[0]
        raise Violation(c, k, m)


def scenario(ctx):
    ds, sim = ctx.ds, ctx.sim
    pre = ctx.preset
    mode = pre.get('mode') or ds.pickw([('script', 5), ('ref', 4)])
    if 'unix' in pre:
        unix = pre['unix']
    else:
        unix = bool(ds.choose(2))
    ctx.config.update(mode=mode, unix=unix)
    mon = Monitor(sim, unix)
    node = Node('c1', serial_start=1 + ds.choose(2**31), known=dict(KNOWN_AT_IMPORT))
    factory = t_client.DBusClientFactory()
    connected = Obs(sim, 'connect').watch(factory.getConnection())
    proto = sim.call(node, factory.buildProtocol, None)
    pref = None
    if 'lines' not in pre and ds.flag(0.25):
        pref = ds.shuffle(PREF)
        if ds.flag(0.3):
            pref = pref[:2]
        sim.probe('custom-preference-order')
    mon.pref = pref or PREF
    proto.authenticator = make_authenticator(mon, pref)
    conn = net.Connection(sim, 'c1', node, None, unix=unix)
    conn.a.taps.append(mon.wrote)
    pipe_sc = conn.pipes[1]
    sched = Scheduler(ctx, allow_stall=False)
    home = ctx.seams.home(nonascii=('lines' not in pre and 'accept' not in pre and ds.flag(0.15)))

    def earlier_connection(krdir):
        # the process has connected before: to another conforming server (its own accepted
        # mechanisms, its own cookie secret under the same cookie id), to completion
        sim.probe('earlier-connection-same-process')
        f0 = t_client.DBusClientFactory()
        Obs(sim, 'connect0').watch(f0.getConnection())
        p0 = sim.call(node, f0.buildProtocol, None)
        c0 = net.Connection(sim, 'c0', node, None, unix=unix)
        s0 = RefSaslServer([m for m in MECHS if ds.flag(0.6)], agree_fd=not ds.flag(0.5),
                           keyring=krdir,
                           urandom=lambda n: bytes((i * 53 + 7) & 0xff for i in range(n)))
        c0.attach(p0, s0)
        sched0 = Scheduler(ctx, allow_stall=False)
        sched0.run(300)
        sched0.drain(200)
        if c0.a.state == net.OPEN and ds.flag(0.5):
            sim.call(node, p0.disconnect)
            sched0.drain(100)

    if mode == 'ref':
        if 'accept' in pre:
            accept = [MECHS[i] for i in range(3) if pre['accept'] & (1 << i)]
            agree = pre['agree']
            kstate = pre.get('keyring', 'ok')
        else:
            accept = [m for m in MECHS if ds.flag(0.5)]
            agree = not ds.flag(0.5)
            kstate = ds.pickw([('ok', 6), ('missing', 1), ('open', 1)])
        if kstate == 'ok':
            kr = ctx.seams.keyring()
        elif kstate == 'open':
            kr = ctx.seams.keyring(mode=0o755)
        else:
            kr = None
        ctx.config.update(accept=[a.decode() for a in accept], agree=agree, keyring=kstate)
        if ds.flag(0.3):
            earlier_connection(kr if kstate != 'missing' else None)
        server = RefSaslServer(accept, agree_fd=agree, keyring=kr if kstate != 'missing' else None,
                               urandom=lambda n: bytes((i * 37 + 11) & 0xff for i in range(n)))
        server.messy_keyring = bool(pre.get('messy', ds.flag(0.5)))
        if 'accept' not in pre and ds.flag(0.3):
            # context names may hold any ASCII but '/', '\\', '.', blanks and newlines
            server.cookie_context = ds.pick([b'org-example-session', b'ctx@host+1', b'a~b:c'])
        if ds.flag(0.3):
            server.guid = b'00112233445566778899AABBCCDDEEFF'
        if ds.flag(0.2):
            # no HOME in the environment: '~' resolves through the user database
            os.environ.pop('HOME', None)
            sim.probe('home-unset')
        if server.messy_keyring and b'DBUS_COOKIE_SHA1' in accept:
            sim.probe('keyring-with-other-entries')
        conn.attach(proto, server)
        sched.run(400)
        ok = sched.drain(200)
        check_no_exceptions(sim, 'C07')
        raise_problems(mon)
        if mon.must_close and conn.a.state == net.OPEN:
            raise Violation('C07/not-closed', mon.must_close,
                            'after %s the client left the connection open' % mon.must_close)
        cookie_usable = (kstate == 'ok')
        can = any(m in accept and m in mon.pref for m in (b'EXTERNAL', b'ANONYMOUS')) or \
            (b'DBUS_COOKIE_SHA1' in accept and b'DBUS_COOKIE_SHA1' in mon.pref and cookie_usable)
        authed = bool(connected.fired and connected.fired[0][0] == 'ok')
        sim.state((unix, tuple(a.decode() for a in accept), agree, kstate, authed))
        if can:
            if not ok or not authed:
                mech = [m.decode() for m in accept]
                raise Violation(
                    'C07/liveness',
                    'via %s fd=%s' % (next(m.decode() for m in mon.pref if m in accept and
                                             (m != b'DBUS_COOKIE_SHA1' or cookie_usable)),
                                        ('agree' if agree else 'error') if unix else 'n/a'),
                    'reference server accepting %r (fd answer %s, keyring %s, unix=%s): '
                    'handshake did not complete; client lines %r; server saw %r; connect fired %r'
                    % (mech, agree, kstate, unix, mon.offered, server.lines, connected.fired))
            if server.mech == b'DBUS_COOKIE_SHA1':
                sim.probe('cookie-auth-completed')
            sim.probe('authenticated-unix-' + ('agree' if agree else 'error') if unix
                      else 'authenticated-tcp')
        else:
            if authed:
                raise Violation('C07/authenticated-without-accept', 'ref',
                                'client reports a ready connection although the server accepts %r'
                                % (accept,))
        return

    # ---- scripted server -------------------------------------------------------------
    if 'lines' not in pre and ds.flag(0.2):
        earlier_connection(ctx.seams.keyring())
    server = ScriptServer('script')
    conn.attach(proto, server)
    if 'lines' in pre:
        script = [ALPHABET[i] for i in pre['lines']]
    else:
        n = 1 + ds.choose(20)
        w = [4, 4, 2, 3, 3, 1, 1, 1, 1, 1, 2, 1, 2, 1, 1, 1, 1, 1, 1, 1, 0.7, 0.7, 0.7, 0.7, 1, 1, 0.7, 1, 1.5,
             1.5, 1, 1]
        script = [ALPHABET[ds.weighted(w)] for _ in range(n)]
    ctx.config.update(script=[s.decode('latin1') for s in script])
    todo = list(script)
    sent_lines = []
    sent_ends = []
    binary_after = [None]

    def extra():
        ops = []
        if todo and not mon.begin and conn.b.state == net.OPEN:
            def send():
                ln = todo.pop(0)
                extra_bytes = b''
                conn.b.write(ln + b'\r\n' + extra_bytes)
                sent_lines.append(ln)
                sent_ends.append(pipe_sc.total)
            ops.append(('line', send))
        return {'op': ops}

    hello_done = [False]

    def invariant():
        check_no_exceptions(sim, 'C07', allow=(UnicodeDecodeError,))
        raise_problems(mon)
        # processed lines are the sent lines, in order, intact
        if mon.processed != sent_lines[:len(mon.processed)]:
            raise Violation('C07/line-integrity', 'processed != sent',
                            'client processed %r, server sent %r' % (mon.processed, sent_lines))
        if mon.must_close and conn.a.state == net.OPEN:
            raise Violation('C07/not-closed', mon.must_close,
                            'after %s (line %r) the client left the connection open'
                            % (mon.must_close, mon.cur))
        if mon.lines_written > len(mon.processed) + 4:
            raise Violation('C07/loop', 'too many lines',
                            'client wrote %d lines for %d server lines'
                            % (mon.lines_written, len(mon.processed)))
        if mon.binary and not mon.begin:
            raise Violation('C07/binary-before-begin', 'binary', 'binary bytes before BEGIN')
        if mon.begin and not hello_done[0]:
            # the script stops here; the server turns into a daemon answering Hello
            hello_done[0] = True
            del todo[:]
        # cut classification
        if pipe_sc.buf:
            pos = pipe_sc.base
            for e in sent_ends:
                if pos == e - 1:
                    sim.probe('cut-between-cr-and-lf')
                    break
                if pos < e:
                    if pos != e:
                        sim.probe('cut-inside-line')
                    break

    sched.run(30 + 12 * len(script), extra, invariant)
    del todo[:]
    sched.drain(200, None, invariant)
    if mon.must_close:
        sim.probe('exhausted-closed' if 'exhausted' in mon.must_close else 'junk-closed')
    if mon.begin:
        sim.probe('authenticated-unix-' + ('agree' if b'AGREE' in (mon.processed[-1] if mon.processed else b'') else 'error')
                  if unix else 'authenticated-tcp')
    sim.state((unix, tuple(mon.kinds[:8]), mon.begin, conn.a.state))


def sweep(tier):
    out = []
    base = [0, 1, 2, 3, 4, 5, 6, 19]
    maxlen = 4 if tier == 'quick' else 5
    scripts = []
    for n in range(1, maxlen + 1):
        for seq in itertools.product(base, repeat=n):
            for unix in (False, True):
                scripts.append({'mode': 'script', 'lines': list(seq), 'unix': unix})
    refs = []
    reps = 12 if tier == 'quick' else 60
    for acc in range(8):
        for agree in (True, False):
            for unix in (False, True):
                for kstate in ('ok', 'missing', 'open'):
                    for _ in range(reps if kstate == 'ok' else max(1, reps // 6)):
                        refs.append({'mode': 'ref', 'accept': acc, 'agree': agree, 'unix': unix,
                                     'keyring': kstate})
    return [('scripts<=%d over 8 symbols x unix/tcp' % maxlen, scripts),
            ('reference servers: 8 subsets x 2 fd answers x unix/tcp x 3 keyring states', refs)]
