"""
C06 - the bus authenticates a peer only after a mechanism accepted it.

System: real BusProtocol (server role of BasicDBusProtocol) + real BusAuthenticator with
(a) the real mechanisms (peer credentials present/absent, scratch keyring in several
states) and (b) scripted mechanisms plugged into the documented `authenticators` table
whose step() outcomes come from the decision stream.
Peers: random / bounded-systematic line sequences (including malformed ones) and
spec-derived reference clients; everything is cut into reads by the seeded scheduler.
Oracle: reference SASL server model (DESIGN.md A.1) applied line by line, safety invariant
"treated as authenticated => model state is Authed", acceptance of conforming clients.
"""
import binascii
import hashlib
import itertools
import os

from simdbus import net
from simdbus.harness import exc_key
from simdbus.kernel import Node, Violation
from simdbus.peers import DumbPeer
from simdbus.refpeer import RefSaslClient
from simdbus.sched import Scheduler
from simdbus.seams import KNOWN_AT_IMPORT

from txdbus import authentication, bus as t_bus
from zope.interface import implementer

PROPERTY = 'C06'
LEVEL = 'exploration'
QUICK_RUNS = 60000
QUICK_BUDGET_S = 60
THOROUGH_BUDGET_S = 600
RULE = ('authentication line sequences over a 41-symbol alphabet (all sequences of length '
        '<= 3 over 9 symbols x 3 mechanism-outcome scripts as a sweep; random ones of up to '
        '40 lines crossing the rejection limit) x mechanism outcome scripts (scripted '
        'mechanism: accept/challenge/reject; real mechanisms with credentials present/absent '
        'and keyring ok/missing/world-accessible) x reference clients (EXTERNAL, '
        'DBUS_COOKIE_SHA1 right/wrong/stale, ANONYMOUS) x seeded splitting into reads')
STATE_MEASURE = 'distinct (model state, rejects, mechanism, last response class) tuples reached'
PROBES = ['sixth-rejection', 'begin-out-of-turn', 'no-nul', 'line-too-long', 'authenticated',
          'cookie-accepted', 'cookie-wrong-hash-rejected', 'external-accepted',
          'anonymous-accepted', 'challenge-issued', 'cut-between-cr-and-lf',
          'bytes-after-begin-same-read', 'keyring-created', 'keyring-refused',
          'overlapping-cookie-exchanges', 'cookie-exchange-after-others', 'cookie-exchange-abandoned-earlier', 'bus-served-others-before']
COMPONENTS = {
    'real': ['txdbus.bus.BusProtocol / txdbus.protocol.BasicDBusProtocol (server role)',
             'txdbus.authentication.BusAuthenticator (tracing subclass on handleAuthMessage)',
             'BusExternalAuthenticator, BusCookieAuthenticator (real files in a scratch keyring), '
             'BusAnonymousAuthenticator', 'txdbus.bus.Bus (uuid)'],
    'stub': ['transport + SO_PEERCRED socket', 'peers (scripted / reference SASL clients)',
             'scripted mechanism in configuration (b)', 'pwd/getpass/HOME, os.urandom, time'],
}
ASSUMPTIONS = ['payloads malformed below the command level (non-hex, non-ASCII) may be answered '
               'as prescribed or by closing; they must never lead to authentication',
               'line lengths 16383..16386 bytes may go either way']

HEX = binascii.hexlify


def h(s):
    return HEX(s)


ALPHABET = [
    b'AUTH',                                   # 0
    b'AUTH ANONYMOUS',                         # 1
    b'AUTH EXTERNAL',                          # 2
    b'DATA',                                   # 3
    b'CANCEL',                                 # 4
    b'BEGIN',                                  # 5
    b'ERROR',                                  # 6
    b'NEGOTIATE_UNIX_FD',                      # 7
    b'AUTH DBUS_COOKIE_SHA1 ' + h(b'simuser'),  # 8
    b'AUTH EXTERNAL ' + h(b'1000'),            # 9
    b'AUTH SCRIPTED',                          # 10
    b'AUTH SCRIPTED ' + h(b'abc'),             # 11
    b'AUTH OTHER',                             # 12
    b'AUTH UNKNOWN_MECH',                      # 13
    b'DATA ' + h(b'hello'),                    # 14
    b'DATA zz',                                # 15 non-hex
    b'FOO',                                    # 16 unknown word
    b'',                                       # 17 empty
    b'\xff\xfeX',                              # 18 non-ascii command
    b'AUTH DBUS_COOKIE_SHA1 ' + h(b'nobody'),  # 19 unknown user
    b'DATA ' + h(b'\xff\xfe'),                 # 20 hex of non-ascii
    b'ERROR "client error"',                   # 21
    b'AUTH DBUS_COOKIE_SHA1',                  # 22 no user
    b'AUTH ANONYMOUS ' + h(b'trace'),          # 23
    b'AUTH anonymous',                         # 24 mechanism names are case sensitive: not offered
    b'auth ANONYMOUS',                         # 25 unknown command
    b'AUTH  ANONYMOUS',                        # 26 two blanks before the mechanism name
    b'AUTH\tANONYMOUS',                        # 27 a tab is not a separator: unknown command
    b'DATA ' + h(b'a b  c'),                   # 28
    b'AUTH DBUS_COOKIE_SHA1 ' + h(b'1000'),    # 29 the user given as a uid
    b'AUTH EXTERNAL ' + h(b'0'),               # 30
    b'ok',                                     # 31 words that are not client commands
    b'continue',                               # 32
    b'OK 1234',                                # 33
    b'REJECTED ANONYMOUS',                     # 34
    b'AGREE_UNIX_FD',                          # 35
    b'BEG\xc3\xa9IN',                          # 36 look-alikes with bytes >= 0x80 inside the word
    b'AU\xffTH ANONYMOUS',                     # 37
    b'DA\x80TA',                               # 38
    b'begin',                                  # 39
    b'reject',                                 # 40
]
SWEEP_SYMS = [1, 10, 3, 4, 5, 6, 7, 13, 16]


def malformed_payload(line):
    """payload not hex, or hex of non-ASCII bytes, or non-ASCII command"""
    cmd, _, arg = line.partition(b' ')
    try:
        cmd.decode('ascii')
    except UnicodeDecodeError:
        return True
    if cmd == b'DATA':
        payloads = [arg.strip()]
    elif cmd == b'AUTH':
        parts = arg.split()
        payloads = parts[1:2]
    else:
        payloads = []
    for p in payloads:
        if not p:
            continue
        try:
            binascii.unhexlify(p).decode('ascii')
        except Exception:
            return True
    return False


class Tracer:
    def __init__(self):
        self.processed = []         # [line]
        self.responses = []         # per processed line: list of server lines written
        self.mech_steps = []        # per processed line: list of (mech name, arg, outcome)
        self.preamble = []          # server writes before any line was processed
        self.authenticated_calls = 0
        self.raw_messages = 0
        self.buf = b''

    def processing(self, line):
        self.processed.append(bytes(line))
        self.responses.append([])
        self.mech_steps.append([])

    def wrote(self, data):
        self.buf += data
        while b'\r\n' in self.buf:
            ln, self.buf = self.buf.split(b'\r\n', 1)
            (self.responses[-1] if self.responses else self.preamble).append(ln)


def scripted_mech(name, tracer, outcomes):
    @implementer(authentication.IBusAuthenticationMechanism)
    class Scripted:
        def __init__(self):
            self.n = 0

        def getMechanismName(self):
            return name

        def init(self, protocol):
            pass

        def step(self, arg):
            o = outcomes()
            tracer.mech_steps[-1].append((name, arg, o))
            if o == 'accept':
                return ('OK', None)
            if o == 'challenge':
                return ('CONTINUE', b'chal-' + name.encode())
            return ('REJECTED', None)

        def getUserName(self):
            return 'scripted-user'

        def cancel(self):
            pass
    return Scripted


class Model:
    """DESIGN.md A.1"""

    def __init__(self, mechs):
        self.st = 'Auth'
        self.rejects = 0
        self.mech = None
        self.mechs = mechs

    def allowed(self, line, env):
        """-> list of (response class, next state); response classes: REJECTED ERROR DATA OK
        NONE CLOSED.  env supplies mechanism outcomes."""
        cmd, _, arg = line.partition(b' ')
        st = self.st
        out = []
        if st == 'Closed' or st == 'Authed':
            return [('NONE', st)]
        R = ('REJECTED', 'Auth')
        if cmd == b'AUTH':
            if st == 'Auth':
                parts = arg.split()
                if not parts or parts[0] not in self.mechs:
                    out = [R]
                else:
                    ir = parts[1] if len(parts) > 1 else None
                    out = env.mech_outcomes(parts[0], ir, True)
            else:
                out = [('ERROR', st)]
        elif cmd == b'DATA':
            if st == 'Data':
                out = env.mech_outcomes(self.mech, arg.strip(), False)
            else:
                out = [('ERROR', st)]
        elif cmd == b'BEGIN':
            if st == 'Begin':
                out = [('NONE', 'Authed')]
            else:
                out = [('CLOSED', 'Closed')]
        elif cmd == b'CANCEL':
            out = [R] if st in ('Data', 'Begin') else [('ERROR', st)]
        elif cmd == b'ERROR':
            out = [R]
        elif cmd == b'NEGOTIATE_UNIX_FD' and st == 'Begin':
            out = [('AGREE_UNIX_FD', st), ('ERROR', st)]
        else:
            out = [('ERROR', st)]
        if malformed_payload(line):
            out = out + [('CLOSED', 'Closed')]
        return out


def classify(resp_lines):
    if not resp_lines:
        return 'NONE', None
    if len(resp_lines) > 1:
        return 'MULTI', resp_lines
    ln = resp_lines[0]
    cmd, _, arg = ln.partition(b' ')
    return cmd.decode('latin1'), arg


def scenario(ctx):
    ds, sim = ctx.ds, ctx.sim
    pre = ctx.preset
    cfg = pre.get('cfg') or ds.pickw([('scripted', 4), ('real', 4), ('ref', 4)])
    home = ctx.seams.home()
    tracer = Tracer()
    bus = t_bus.Bus()
    creds_present = pre.get('creds', None)
    if creds_present is None:
        creds_present = ds.flag(0.6)
    kstate = pre.get('keyring') or ds.pickw([('ok', 5), ('missing', 2), ('open', 1)])
    if kstate == 'ok':
        ctx.seams.keyring()
    elif kstate == 'open':
        ctx.seams.keyring(mode=0o755)
    ctx.seams.set_linux(bool(creds_present))
    ctx.config.update(cfg=cfg, creds=bool(creds_present), keyring=kstate)

    outcome_script = pre.get('outcomes')
    drawn = []

    def outcomes():
        if outcome_script is not None:
            o = outcome_script[len(drawn) % len(outcome_script)]
        else:
            o = ('accept', 'challenge', 'reject')[ds.weighted([3, 3, 2])]
        drawn.append(o)
        return o

    if cfg == 'scripted':
        table = {b'SCRIPTED': scripted_mech('SCRIPTED', tracer, outcomes),
                 b'OTHER': scripted_mech('OTHER', tracer, outcomes)}
    else:
        table = dict(authentication.BusAuthenticator.authenticators)

    class Traced(authentication.BusAuthenticator):
        authenticators = table

        def handleAuthMessage(self, line):
            tracer.processing(line)
            return authentication.BusAuthenticator.handleAuthMessage(self, line)

    class Proto(t_bus.BusProtocol):
        authenticator = Traced

        def connectionAuthenticated(self):
            tracer.authenticated_calls += 1
            t_bus.BusProtocol.connectionAuthenticated(self)

        def rawDBusMessageReceived(self, raw):
            tracer.raw_messages += 1

    class F:
        pass
    f = F()
    f.bus = bus
    node = Node('bus', serial_start=1 + ds.choose(1000), known=dict(KNOWN_AT_IMPORT))
    proto = Proto()
    proto.factory = f
    conn = net.Connection(sim, 's', None, node, unix=True,
                          creds=(4242, 1000, 1000) if creds_present else None)
    conn.b.taps.append(tracer.wrote)
    pipe_cs = conn.pipes[0]          # client -> server
    sched = Scheduler(ctx, allow_stall=False)
    mechs = set(table.keys())
    model = Model(mechs)
    judged = [0]
    guid = bus.uuid
    cookie_info = {}
    last_class = [None]

    class Env:
        def mech_outcomes(self, mech, arg, first):
            k = judged[0]
            steps = tracer.mech_steps[k]
            if cfg == 'scripted':
                if not steps and malformed_payload(tracer.processed[k]):
                    return []          # closing is the only alternative (added by the caller)
                if len(steps) != 1:
                    raise Violation('C06/mech-step', '%d steps' % len(steps),
                                    'line %r should step mechanism %r once; stepped %r'
                                    % (tracer.processed[k], mech, steps))
                o = steps[0][2]
                model.mech = mech
                return [{'accept': ('OK', 'Begin'), 'challenge': ('DATA', 'Data'),
                         'reject': ('REJECTED', 'Auth')}[o]]
            model.mech = mech
            if mech == b'ANONYMOUS':
                return [('OK', 'Begin')]
            if mech == b'EXTERNAL':
                if not creds_present:
                    return [('REJECTED', 'Auth')]
                return [('OK', 'Begin'), ('DATA', 'Data')]
            if mech == b'DBUS_COOKIE_SHA1':
                if first:
                    try:
                        user = binascii.unhexlify(arg or b'').decode('ascii')
                    except Exception:
                        user = None
                    if user in ('simuser', '1000', str(os.geteuid())) and kstate != 'open':
                        return [('DATA', 'Data'), ('REJECTED', 'Auth')]
                    return [('REJECTED', 'Auth')]
                # second step: justified?
                ok = False
                try:
                    cchal, chash = binascii.unhexlify(arg).split()
                    ci = cookie_info.get('cur')
                    if ci:
                        want = HEX(hashlib.sha1(ci['challenge'] + b':' + cchal + b':' +
                                                ci['cookie']).digest())
                        ok = (want == chash)
                except Exception:
                    ok = False
                return [('OK', 'Begin')] if ok else [('REJECTED', 'Auth')]
            return [('REJECTED', 'Auth')]

    env = Env()

    def note_challenge(resp_arg):
        """server wrote DATA <hex> for DBUS_COOKIE_SHA1: read the cookie it refers to"""
        try:
            ctxname, cid, chal = binascii.unhexlify(resp_arg).split()
            path = os.path.join(home, '.dbus-keyrings', ctxname.decode('ascii'))
            cookie = None
            with open(path, 'rb') as fh:
                for ln in fh:
                    a, b, c = ln.split()
                    if a == cid:
                        cookie = c
            cookie_info['cur'] = {'challenge': chal, 'cookie': cookie}
            st = os.stat(os.path.join(home, '.dbus-keyrings'))
            if st.st_mode & 0o077:
                raise Violation('C06/keyring-mode', oct(st.st_mode & 0o777),
                                'keyring directory has mode %o' % (st.st_mode & 0o777))
            if kstate == 'missing':
                sim.probe('keyring-created')
        except Violation:
            raise
        except Exception as e:
            cookie_info['cur'] = None

    excuse = [lambda k: False]   # legitimate reasons to close that are not tied to line k

    def judge():
        """apply the model to every line processed since the last call"""
        while judged[0] < len(tracer.processed):
            k = judged[0]
            line = tracer.processed[k]
            # a line is judged once the next one started or the read is over
            resp = tracer.responses[k]
            cls, arg = classify(resp)
            if model.st in ('Closed', 'Authed'):
                raise Violation('C06/line-after-end', model.st,
                                'line %r handed to the authenticator in model state %s'
                                % (line, model.st))
            allowed = model.allowed(line, env)
            closed = proto.transport.state != net.OPEN
            last = (k == len(tracer.processed) - 1)
            match = None
            for c, nst in allowed:
                if c == 'CLOSED':
                    if last and closed and cls in ('NONE', 'ERROR', 'REJECTED'):
                        match = (c, nst)
                        break
                    continue
                if c == cls:
                    match = (c, nst)
                    break
            # sixth rejection: must close; REJECTED may or may not still be written
            if any(c == 'REJECTED' for c, _ in allowed) and model.rejects >= 5 and \
                    (match is None or match[0] == 'REJECTED'):
                if cls in ('REJECTED', 'NONE') and last and closed:
                    sim.probe('sixth-rejection')
                    model.st = 'Closed'
                    judged[0] += 1
                    continue
                if cls == 'REJECTED' or cls == 'NONE':
                    raise Violation('C06/reject-limit', 'not closed after rejection %d'
                                    % (model.rejects + 1),
                                    'rejection number %d (line %r) left the connection open'
                                    % (model.rejects + 1, line))
            if match is None:
                raise Violation(
                    'C06/response', '%s in %s -> %s' % (line.split(b' ')[0].decode('latin1')[:12],
                                                       model.st, cls if not closed else cls + '+closed'),
                    'line %d %r in model state %s (rejects %d): server answered %r%s; the '
                    'state machine allows %r' % (k, line, model.st, model.rejects, resp,
                                                 ' and closed' if closed else '', allowed))
            c, nst = match
            if c == 'REJECTED':
                model.rejects += 1
                got = set(arg.split()) if arg else set()
                if got != mechs:
                    raise Violation('C06/reject-list', 'mechanism list',
                                    'REJECTED lists %r, offered mechanisms are %r' % (got, mechs))
                model.mech = None
            if c == 'OK':
                if (arg or b'').strip() != guid:
                    raise Violation('C06/ok-guid', 'guid', 'OK carries %r, bus guid is %r'
                                    % (arg, guid))
            if c == 'DATA':
                sim.probe('challenge-issued')
                if cfg != 'scripted' and model.mech == b'DBUS_COOKIE_SHA1':
                    note_challenge(arg)
            if c == 'CLOSED':
                if line.split(b' ')[0] == b'BEGIN':
                    sim.probe('begin-out-of-turn')
            if c != 'CLOSED' and closed and last and nst not in ('Closed',):
                # closed although the model wants to go on
                if not (malformed_payload(line)) and not excuse[0](k):
                    raise Violation('C06/closed-early', '%s in %s' % (
                        line.split(b' ')[0].decode('latin1')[:12], model.st),
                        'connection closed after line %r answered %r in state %s'
                        % (line, resp, model.st))
                nst = 'Closed'
            model.st = nst
            last_class[0] = c
            sim.state((model.st, model.rejects, (model.mech or b'').decode(), c))
            judged[0] += 1

    def safety():
        if tracer.authenticated_calls or tracer.raw_messages:
            if model.st != 'Authed':
                raise Violation('C06/authenticated-without-accept', 'state ' + model.st,
                                'connection treated as authenticated (connectionAuthenticated '
                                'x%d, %d raw messages) while the model is in %s after lines %r'
                                % (tracer.authenticated_calls, tracer.raw_messages, model.st,
                                   tracer.processed[-6:]))
        if tracer.authenticated_calls > 1:
            raise Violation('C06/authenticated-twice', 'twice', 'connectionAuthenticated ran twice')
        for where, what, e in sim.exceptions:
            # an escaping exception closes the connection; acceptable only for malformed payloads
            line = tracer.processed[-1] if tracer.processed else b''
            if what == 'dataReceived' and tracer.processed and malformed_payload(line):
                continue
            raise Violation('C06/exception', exc_key(e),
                            'exception escaped while processing %r: %r' % (line, e))

    def invariant():
        judge()
        safety()

    def earlier_peers():
        # the bus has served other connections before: conforming clients of any kind that
        # were accepted, rejected, or went away half way
        if pre or not ds.flag(0.25):
            return
        sim.probe('bus-served-others-before')
        es = Scheduler(ctx, allow_stall=False)
        for j in range(1 + ds.choose(2)):
            k2 = ds.pick(['EXTERNAL', 'EXTERNAL-ir', 'COOKIE', 'ANONYMOUS', 'COOKIE-wrong-hash',
                          'COOKIE-stale', 'COOKIE-cancel', 'COOKIE-silent'])
            o = RefSaslClient(k2, keyring=os.path.join(home, '.dbus-keyrings'))
            pj = t_bus.BusProtocol()
            pj.factory = f
            cj = net.Connection(sim, 'e%d' % j, None, node, unix=True,
                                creds=(4300 + j, 1000, 1000) if creds_present else None)
            cj.attach(o, pj, a_first=False)
            es.run(150)
            es.drain(100)
            how = ds.choose(3)
            if how == 1 and o.transport.state == net.OPEN:
                o.transport.loseConnection()
            elif how == 2:
                cj.reset()
            es.drain(100)
        for where, what, e in sim.exceptions:
            raise Violation('C06/exception', exc_key(e), 'exception while the bus served an earlier, '
                            'conforming peer (%s): %r' % (where, e))

    # ---------------------------------------------------------------------------------
    if cfg == 'ref':
        kind = pre.get('client') or ds.pick(['EXTERNAL', 'EXTERNAL-ir', 'COOKIE', 'ANONYMOUS',
                                            'COOKIE-wrong-hash', 'COOKIE-stale'])
        ctx.config.update(client=kind)
        hello = b'l\x01\x00\x01\x00\x00\x00\x00\x01\x00\x00\x00\x00\x00\x00\x00'
        peer = RefSaslClient(kind, keyring=os.path.join(home, '.dbus-keyrings'),
                             after_begin=hello if ds.flag(0.5) else b'')
        crowd = kind == 'COOKIE' and ds.flag(0.3)
        if crowd:
            peer.first_match = ds.flag(0.5)
            # two earlier peers of the same bus: one completes its cookie exchange, one got its
            # challenge and keeps the bus waiting; only then does the peer under test start
            sim.probe('cookie-exchange-after-others')
            for j, k2 in enumerate(('COOKIE', 'COOKIE-silent')):
                o = RefSaslClient(k2, keyring=os.path.join(home, '.dbus-keyrings'))
                pj = t_bus.BusProtocol()
                pj.factory = f
                cj = net.Connection(sim, 's%d' % (3 + j), None, node, unix=True,
                                    creds=(4250 + j, 1000, 1000) if creds_present else None)
                if j == 0:
                    first_other = (o, cj)
                cj.attach(o, pj, a_first=False)
            others_sched = Scheduler(ctx, allow_stall=False)
            others_sched.run(120)
            others_sched.drain(100)
            if ds.flag(0.5):
                # the peer that never answered goes away mid-exchange, and time passes before
                # the peer under test shows up (cookies age; ids may be handed out again)
                sim.probe('cookie-exchange-abandoned-earlier')
                if ds.flag(0.5):
                    o.transport.loseConnection()
                else:
                    cj.reset()
                others_sched.drain(100)
                sim.advance(ds.pick([1, 29, 31, 45, 3600]))
        if not crowd:
            earlier_peers()
        conn.attach(peer, proto, a_first=False)
        if kind == 'COOKIE' and not crowd and ds.flag(0.5):
            # a second peer of the same bus starts a cookie exchange of its own and abandons it
            # (CANCEL / ERROR / close) while the first one is under way
            sim.probe('overlapping-cookie-exchanges')
            other = RefSaslClient('COOKIE-cancel', keyring=os.path.join(home, '.dbus-keyrings'))
            other.cancel_with = ds.pick([b'CANCEL', b'ERROR "changed my mind"'])
            proto2 = t_bus.BusProtocol()
            proto2.factory = f
            conn2 = net.Connection(sim, 's2', None, node, unix=True,
                                   creds=(4243, 1000, 1000) if creds_present else None)
            conn2.attach(other, proto2, a_first=False)
        sched.run(300, None, invariant)
        sched.drain(100, None, invariant)
        authed = tracer.authenticated_calls == 1
        should = {'EXTERNAL': creds_present, 'EXTERNAL-ir': creds_present,
                  'COOKIE': kstate != 'open', 'ANONYMOUS': True,
                  'COOKIE-wrong-hash': False, 'COOKIE-stale': False}[kind]
        if should and not authed:
            raise Violation('C06/acceptance', kind,
                            'conforming %s client (creds=%s, keyring=%s) was not accepted: '
                            'client sent %r, server answered %r, model state %s'
                            % (kind, creds_present, kstate, peer.sent_lines,
                               peer.lines, model.st))
        if not should and authed:
            raise Violation('C06/authenticated-without-accept', kind,
                            '%s client (creds=%s keyring=%s) was authenticated'
                            % (kind, creds_present, kstate))
        if authed:
            sim.probe('authenticated')
            sim.probe({'E': 'external-accepted', 'C': 'cookie-accepted',
                       'A': 'anonymous-accepted'}[kind[0]])
        if kind == 'COOKIE-wrong-hash' and peer.cookie_used:
            sim.probe('cookie-wrong-hash-rejected')
        if kind.startswith('COOKIE') and kstate == 'open':
            sim.probe('keyring-refused')
        return

    # ---- scripted peers ---------------------------------------------------------------
    peer = DumbPeer('script')
    earlier_peers()
    conn.attach(peer, proto, a_first=False)
    if 'lines' in pre:
        script = [ALPHABET[i] for i in pre['lines']]
        nul = True
    else:
        n = 1 + ds.choose(40 if ds.flag(0.3) else 10)
        w = [1, 4, 3, 4, 3, 3, 3, 1, 3, 2, 5, 2, 1, 2, 2, 1, 1, 1, 0.5, 1, 0.5, 1, 1, 1, 0.7, 0.7, 0.7,
             0.5, 0.7, 1, 0.7, 1, 0.7, 0.7, 0.5, 0.5, 1, 0.7, 0.7, 0.7, 0.5]
        if cfg == 'scripted':
            w[1] = w[2] = w[8] = w[9] = 0.3
        else:
            w[10] = w[11] = w[12] = 0.3
        script = [ALPHABET[ds.weighted(w)] for _ in range(n)]
        nul = not ds.flag(0.04)
        if ds.flag(0.04):
            # an over-long line somewhere
            i = ds.choose(len(script))
            ln = ds.pick([16382, 16383, 16390, 20000, 40000])
            script[i] = b'DATA ' + b'61' * ((ln - 5) // 2)
    ctx.config.update(script=[s[:40].decode('latin1') for s in script], nul=nul)
    todo = list(script)
    sent = []
    ends = []
    long_line = [None]
    began = [False]

    def extra():
        ops = []
        if todo and conn.a.state == net.OPEN and not began[0]:
            def send():
                ln = todo.pop(0)
                data = ln + b'\r\n'
                if not sent:
                    data = (b'\0' if nul else b'A') + data
                if ln == b'BEGIN' and ds.flag(0.4):
                    data += b'l\x01\x00\x01' + b'\0' * 12     # bytes after BEGIN, same write
                    sim.probe('bytes-after-begin-same-read')
                conn.a.write(data)
                sent.append(ln)
                ends.append(pipe_cs.total)
                if len(ln) > 16386:
                    long_line[0] = len(sent) - 1
            ops.append(('line', send))
        return {'op': ops}

    def next_line_too_long(k):
        # the line after k is over-long and enough of it has been delivered to be noticed
        if k + 1 < len(sent) and len(sent[k + 1]) > 16383:
            return pipe_cs.base - ends[k] > 16383
        return False
    excuse[0] = next_line_too_long

    def inv2():
        invariant()
        if not nul and tracer.processed:
            raise Violation('C06/no-nul', 'processed', 'lines interpreted although the stream '
                            'did not start with NUL')
        if not nul and sent and pipe_cs.base > 0 and proto.transport.state == net.OPEN:
            raise Violation('C06/no-nul', 'open', 'connection left open after a first byte != NUL')
        if model.st == 'Authed':
            began[0] = True
        # processed lines are a prefix of the sent ones
        if tracer.processed != sent[:len(tracer.processed)]:
            raise Violation('C06/line-integrity', 'processed != sent',
                            'server processed %r ... but the peer sent %r ...'
                            % (tracer.processed[-3:], sent[:len(tracer.processed)][-3:]))
        if long_line[0] is not None and model.st not in ('Authed', 'Closed'):
            i = long_line[0]
            if len(tracer.processed) > i:
                raise Violation('C06/long-line', 'processed', 'a %d byte line was processed'
                                % len(sent[i]))
            # once more than 16386+2 bytes of it have been delivered the connection must close
            start = ends[i - 1] if i else 0
            if pipe_cs.base - start > 16390 + 1 and proto.transport.state == net.OPEN:
                raise Violation('C06/long-line', 'not closed',
                                '%d bytes of an unterminated line delivered, connection open'
                                % (pipe_cs.base - start))
        if pipe_cs.buf:
            for e in ends:
                if pipe_cs.base == e - 1:
                    sim.probe('cut-between-cr-and-lf')

    sched.run(40 + 8 * len(script), extra, inv2)
    sched.drain(300, extra, inv2)
    if not nul:
        sim.probe('no-nul')
    if long_line[0] is not None:
        sim.probe('line-too-long')
    if model.st == 'Authed':
        sim.probe('authenticated')


def sweep(tier):
    scripts = []
    maxlen = 3 if tier == 'quick' else 4
    for n in range(1, maxlen + 1):
        for seq in itertools.product(SWEEP_SYMS, repeat=n):
            for oc in (['accept'], ['challenge', 'accept'], ['reject', 'challenge', 'challenge']):
                scripts.append({'cfg': 'scripted', 'lines': list(seq), 'outcomes': oc})
    refs = []
    reps = 8 if tier == 'quick' else 40
    for kind in ('EXTERNAL', 'EXTERNAL-ir', 'COOKIE', 'ANONYMOUS', 'COOKIE-wrong-hash',
                 'COOKIE-stale'):
        for creds in (True, False):
            for ks in ('ok', 'missing', 'open'):
                for _ in range(reps):
                    refs.append({'cfg': 'ref', 'client': kind, 'creds': creds, 'keyring': ks})
    return [('line sequences <=%d over 9 symbols x 3 outcome scripts' % maxlen, scripts),
            ('reference clients: 6 kinds x creds x 3 keyring states', refs)]
