"""
C11 - a call through a proxy reaches the remote method and returns what it returned.

System: the real built-in Bus + one BusProtocol per connection + 2-4 real
DBusClientConnections, each a simulated process with its own serial counter and interface
cache, over simulated links.  One or two clients export generated objects under a
well-known name; the others obtain proxies (explicit DBusInterface objects, interface
names, or introspection) and issue 1-3 concurrent calls per round.
Schedule: every delivery on every client<->bus link direction with arbitrary read sizes,
stalls.  No connection faults (the statement is about delivery order).
Oracle: each proxy call completes within the drain bound with a value equal to what the
implementation returned, or a RemoteError mirroring what it raised; the exporter's log
shows exactly one invocation per call with equal arguments.
"""
from simdbus import gen, net, objgen, refcodec as rc
from simdbus.harness import BusRig, Obs, check_no_exceptions, exc_key
from simdbus.kernel import SimCancelled, Violation
from simdbus.sched import Scheduler

from txdbus import error as t_error

PROPERTY = 'C11'
LEVEL = 'exploration'
QUICK_RUNS = 15000
QUICK_BUDGET_S = 60
THOROUGH_BUDGET_S = 1200
RULE = ('2-4 real clients on the real built-in bus; 1-2 exporters with generated interfaces; '
        'proxies by explicit interface / interface name / introspection; 1-3 concurrent calls x '
        '1-3 rounds with arguments and return values from the marshallable value space; '
        'implementations return or raise; seeded interleaving of byte delivery on all links '
        'with arbitrary read splitting and stalls')
STATE_MEASURE = 'distinct (clients, proxy kind, calls in flight, outcome kind) tuples'
PROBES = ['proxy-introspected', 'proxy-explicit', 'proxy-by-name', 'three-calls-in-flight',
          'two-callers-one-exporter', 'participant-attached-after-another-left', 'name-handed-over-then-introspected-again', 'successor-redefines-the-same-interface-names', 'name-owner-disconnected-successor-takes-over', 'remote-error-mirrored', 'call-to-second-exporter',
          'same-serial-two-clients', 'exporter-calls-itself-through-bus', 'big-endian-foreign-call', 'implementation-answers-later',
          'late-answers-out-of-order', 'proxy-with-reordered-or-partial-interfaces',
          'proxy-call-without-interface', 'proxy-introspected-replacing-cache',
          'overlapping-proxy-requests']
COMPONENTS = {
    'real': ['txdbus.bus.Bus / BusProtocol (routing, Hello, RequestName)', 'BusAuthenticator + '
             'mechanisms', 'txdbus.client.DBusClientConnection x 2-4', 'txdbus.objects (proxies, '
             'object handler)', 'txdbus.introspection', 'txdbus.message / marshal'],
    'stub': ['transports', 'exported classes (generated)', 'pwd/getpass/HOME, os.urandom'],
}
ASSUMPTIONS = ['no connection faults in this check; descriptors are not passed (the built-in bus '
               'declines descriptor passing)']


class AppError(Exception):
    dbusErrorName = 'org.sim.Error.App'


class PlainError(Exception):
    pass


def expected_value(sig_out, ref):
    if not sig_out or not ref:
        return None
    vals = rc.plain_body(sig_out, ref)
    if len(vals) == 1 and sig_out[0] != '(':
        return vals[0]
    return vals


def scenario(ctx):
    ds, sim = ctx.ds, ctx.sim
    rig = BusRig(ctx, creds=ds.flag(0.6), prop='C11')
    nclients = 2 + ds.choose(5 if ctx.tier == 'thorough' else 3)
    # churn: some other connection came (anywhere in the attachment order) and went, and one
    # participant attached only after that
    churn = ds.flag(0.3)
    gone_at = ds.choose(nclients) if churn else None
    clients = []
    for i in range(nclients):
        if churn and i == gone_at:
            bystander = rig.add_client()
        if churn and i == nclients - 1:
            rig.call(bystander, bystander['proto'].disconnect)
            rig.calm()
            sim.probe('participant-attached-after-another-left')
        clients.append(rig.add_client())
    if len(set(rig.unique(c) for c in clients)) != len(clients):
        raise Violation('C11/attach', 'unique name given twice',
                        'connections attached at the same time share a unique name: %r'
                        % [rig.unique(c) for c in clients])
    nexp = 1 if nclients == 2 or ds.flag(0.6) else 2
    exporters = clients[:nexp]
    ctx.config.update(clients=nclients, exporters=nexp)
    sched = Scheduler(ctx)
    late = []             # (exporter, fire function) of Deferreds returned by implementations
    current = {}          # exporter name -> (sender, serial) being processed
    invocations = {}      # (exporter name, sender unique, serial) -> rec
    services = []

    def make_exporter(e, tag, path=None):
        cl = e['proto']
        fixed_path = path

        def hook(obj, mspec, args, caller, e=e):
            key = (e['name'],) + current.get(e['name'], (None, None))
            rec = {'m': mspec, 'args': args, 'caller': caller}
            if key in invocations:
                raise Violation('C11/invoked-twice', 'same call', 'call %r invoked twice' % (key,))
            invocations[key] = rec
            k = ds.weighted([6, 1.5, 1, 2])
            so = mspec.sig_out
            n = objgen.nargs(so)
            if k == 3:
                # the implementation answers later: the scheduler fires the Deferred, possibly
                # after other calls were dispatched and answered
                from twisted.internet import defer
                d = defer.Deferred()
                ref, txv = gen.tx_body(ds, so)
                if ds.flag(0.75):
                    rec['out'] = ('value', ref)
                    val = None if n == 0 else (txv[0] if n == 1 else tuple(txv))
                    late.append((e, lambda d=d, val=val: d.callback(val)))
                else:
                    rec['out'] = ('raise', AppError, 'late')
                    late.append((e, lambda d=d: d.errback(AppError('late'))))
                sim.probe('implementation-answers-later')
                return d
            if k == 0:
                ref, txv = gen.tx_body(ds, so)
                rec['out'] = ('value', ref)
                return None if n == 0 else (txv[0] if n == 1 else tuple(txv))
            text = ds.pick(['went wrong', '', 'a: b'])
            cls = AppError if k == 1 else ds.pick([PlainError, PlainError, SimCancelled])
            rec['out'] = ('raise', cls, text)
            raise cls(text)

        orig = cl.methodCallReceived
        if getattr(orig, 'traced_by_c11', False):
            orig = orig.orig

        def traced(mcall, orig=orig, e=e):
            current[e['name']] = (mcall.sender, mcall.serial)
            try:
                return orig(mcall)
            finally:
                current.pop(e['name'], None)
        traced.traced_by_c11 = True
        traced.orig = orig
        cl.methodCallReceived = traced

        def build(e=e, hook=hook, cl=cl):
            base = objgen.class_spec(ds, tag[0] + 'B' + tag[1:], n_ifaces=1) if ds.flag(0.3) else None
            cs = objgen.class_spec(ds, tag, with_base=base)
            txi = objgen.build_tx_ifaces(cs)
            klass = objgen.build_class(cs, hook, txi)
            path = fixed_path or ds.pick(['/svc', '/', '/a/b'])
            o = klass(path)
            cl.exportObject(o)
            return cs, path
        return rig.call(e, build)

    for ei, e in enumerate(exporters):
        cl = e['proto']
        cs, path = make_exporter(e, 'X%d' % ei)
        wk = 'org.sim.svc%d' % ei
        nm = Obs(sim, 'name%d' % ei).watch(rig.call(e, cl.requestBusName, wk))
        services.append({'exp': e, 'cs': cs, 'path': path, 'name': wk, 'nm': nm})
    rig.calm()
    for s in services:
        if not s['nm'].fired or s['nm'].fired[0][0] != 'ok':
            raise Violation('C11/request-name', 'failed', 'exporter could not acquire %s: %r'
                            % (s['name'], s['nm'].fired))
    check_no_exceptions(sim, 'C11')

    # serial collisions between clients are wanted: report when they happen
    callers = clients[nexp:] if len(clients) > nexp else clients
    if ds.flag(0.15):
        callers = clients        # an exporter may call (itself or the other one) through the bus
    stale_cache = {}
    proxies = []          # dict(owner, svc, kind, obs, prox)
    calls = []
    rounds = [1 + ds.choose(5 if ctx.tier == 'thorough' else 3)]
    budget = [0]

    def get_proxy(c, s, force_kind=None):
        kind = force_kind or ds.pickw([('introspect', 5), ('explicit', 3), ('by-name', 2)])
        # whether this caller's cache holds an outdated definition for this service is decided
        # once per (caller, service): then every introspection of it asks for replacement
        ck = (c['name'], s['name'])
        if ck not in stale_cache:
            stale_cache[ck] = ds.flag(0.2)
        if kind == 'introspect' and stale_cache[ck] and not force_kind:
            kind = 'introspect-replace'
        p = {'owner': c, 'svc': s, 'kind': kind, 'prox': None, 'failed': None}
        descs = list(s['cs'].all_ifaces())
        if kind in ('explicit', 'by-name') and len(descs) > 1 and ds.flag(0.5):
            # the proxy is declared with the interfaces in another order, or only some of them
            descs = ds.shuffle(descs)
            if ds.flag(0.4):
                descs = descs[:1 + ds.choose(len(descs) - 1)]
            sim.probe('proxy-with-reordered-or-partial-interfaces')
        p['descs'] = descs

        def run():
            cl = c['proto']
            replace = False
            if kind == 'introspect':
                ifs = None
            elif kind == 'introspect-replace':
                # the caller's cache holds an outdated definition of one of the interfaces;
                # it asks for the cache to be replaced by what introspection finds
                from txdbus import interface as ti
                stale = descs[0]
                if stale_cache[ck] is True:
                    ti.DBusInterface(stale.name, ti.Method('Obsolete', 'i', 's'))
                    stale_cache[ck] = 'registered'
                ifs = None
                replace = True
            elif kind == 'explicit':
                ifs = [gen.tx_interface(d, register=False) for d in descs]
            else:
                for d in descs:
                    gen.tx_interface(d, register=True)
                ifs = [d.name for d in descs]
            dest = s['name'] if force_kind or ds.flag(0.7) else rig.unique(s['exp'])
            p['dest'] = dest
            d = cl.getRemoteObject(dest, s['path'], ifs, replace)
            d.addCallbacks(lambda prox: p.__setitem__('prox', prox),
                           lambda f: p.__setitem__('failed', f))
        rig.call(c, run)
        sim.probe('proxy-' + {'introspect': 'introspected', 'explicit': 'explicit',
                              'by-name': 'by-name', 'introspect-replace': 'introspected-replacing-cache'}[kind])
        proxies.append(p)
        sim.log('op', 'proxy', c['name'], s['name'], kind)

    def issue(p):
        s = p['svc']
        cands = [(d, m) for d in p['descs'] for m in d.methods]
        if not cands:
            return
        d, (mn, si, so) = cands[ds.choose(len(cands))]
        kw = {'interface': d.name}
        if ds.flag(0.35):
            # no interface named: the first interface of the proxy that declares the member
            kw = {}
            d = next(x for x in p['descs'] if x.method(mn))
            mn, si, so = d.method(mn)
            sim.probe('proxy-call-without-interface')
        ref, txv = gen.tx_body(ds, si)
        c = p['owner']
        nsent = len(c['sent'])
        try:
            dd = rig.call(c, p['prox'].callRemote, mn, *txv, **kw)
        except Exception as e:
            raise Violation('C11/call-raised', exc_key(e),
                            'proxy.callRemote(%s.%s, %r) raised %r (proxy kind %s)'
                            % (d.name, mn, txv, e, p['kind']))
        call = {'p': p, 'iface': d.name, 'member': mn, 'sig_in': si, 'sig_out': so, 'ref': ref,
                'sink': []}
        call['obs'] = Obs(sim, 'call%d' % len(calls), call['sink']).watch(dd)
        new = [m for m in c['sent'][nsent:] if m.mtype == rc.METHOD_CALL]
        call['serial'] = new[-1].serial if new else None
        calls.append(call)
        sim.log('op', 'call', c['name'], d.name, mn, si)
        for other in calls[:-1]:
            if other['serial'] == call['serial'] and other['p']['owner'] is not c \
                    and not other['obs'].fired:
                sim.probe('same-serial-two-clients')

    # a foreign (non-txdbus) client on the same bus: calls the exporters with reference-encoded
    # messages, some of them big-endian, interleaved with the proxies' little-endian traffic
    foreign = rig.add_peer() if ds.flag(0.4) else None
    fcalls = []

    def foreign_call():
        s = services[ds.choose(len(services))]
        cands = [(d, m) for d in s['cs'].all_ifaces() for m in d.methods]
        if not cands:
            return
        d, (mn, si, so) = cands[ds.choose(len(cands))]
        ref = gen.body(ds, si)
        little = ds.flag(0.4)
        if not little:
            sim.probe('big-endian-foreign-call')
        p = foreign['proto']
        m = p.send(rc.Msg(rc.METHOD_CALL, p.next_serial(),
                          {rc.F_PATH: s['path'], rc.F_INTERFACE: d.name, rc.F_MEMBER: mn,
                           rc.F_DESTINATION: s['name']}, si, ref, little=little))
        fcalls.append({'svc': s, 'iface': d.name, 'member': mn, 'sig_in': si, 'sig_out': so,
                       'ref': ref, 'serial': m.serial})
        sim.log('op', 'foreign-call', d.name, mn, si, little)

    def extra():
        ops = []
        if budget[0] > 0 and foreign is not None:
            def fop():
                budget[0] -= 1
                foreign_call()
            ops.append(('foreign', fop))
        if budget[0] > 0:
            ready = [p for p in proxies if p['prox'] is not None and not p.get('retired')]
            if ready:
                def op():
                    budget[0] -= 1
                    issue(ready[ds.choose(len(ready))])
                ops.append(('call', op))
        fires = []
        for i, (exp, fn) in enumerate(late):
            def fire(i=i, exp=exp, fn=fn):
                late.pop(i)
                if i:
                    sim.probe('late-answers-out-of-order')
                rig.call(exp, fn)
            fires.append(('late%d' % i, fire))
        return {'op': ops, 'fire': fires}

    def invariant():
        check_no_exceptions(sim, 'C11')
        rig.check_wire('C11')
        inflight = sum(1 for c in calls if not c['obs'].fired)
        if inflight >= 3:
            sim.probe('three-calls-in-flight')

    # proxies first (under the scheduler), then rounds of concurrent calls
    for c in callers:
        for s in services:
            if ds.flag(0.8) or not proxies:
                get_proxy(c, s)
                if ds.flag(0.25):
                    # a second request for the same object while the first may still be in flight
                    sim.probe('overlapping-proxy-requests')
                    get_proxy(c, s)
    sched.run(600, None, invariant)
    sched.drain(600, None, invariant)
    for p in proxies:
        if p['prox'] is None:
            raise Violation('C11/proxy-failed', p['kind'],
                            '%s could not obtain a %s proxy for %s %s: %r'
                            % (p['owner']['name'], p['kind'], p['dest'], p['svc']['path'],
                               p['failed'] and p['failed'].value))
    owners = set(p['owner']['name'] for p in proxies)
    if len(owners) > 1:
        sim.probe('two-callers-one-exporter')
    if any(p['owner'] in exporters for p in proxies):
        sim.probe('exporter-calls-itself-through-bus')
    if any(p['svc'] is services[-1] for p in proxies) and len(services) > 1:
        sim.probe('call-to-second-exporter')
    handover = ds.flag(0.25)
    if handover:
        rounds[0] += 1

    def do_handover():
        # a well-known name changes hands between rounds: the owner gives it up, another
        # connection acquires it and exports a different object at the same path; callers ask for
        # the object again (by introspection, without asking for cached definitions to be replaced)
        s = services[ds.choose(len(services))]
        cand = [c for c in clients if c not in exporters]
        if not cand:
            return
        new = cand[ds.choose(len(cand))]
        old = s['exp']
        sim.log('op', 'handover', s['name'], old['name'], new['name'])
        leaves = (not any(p['owner'] is old for p in proxies) and old not in callers
                  and not any(x is not s and x['exp'] is old for x in services) and ds.flag(0.5))
        if leaves:
            # the owner goes away altogether (a service restart); its unique name dies with it
            sim.probe('name-owner-disconnected-successor-takes-over')
            rel = Obs(sim, 'release')
            rig.call(old, old['proto'].disconnect)
            for p in proxies:
                if p['svc'] is s:
                    p['retired'] = True
        else:
            rel = Obs(sim, 'release').watch(rig.call(old, old['proto'].releaseBusName, s['name']))
        rig.calm()
        # the successor is another service, or a newer version of the same one: the same interface
        # names with other members (callers then ask for cached definitions to be replaced, and
        # what they still hold for the old owner's unique name must keep working)
        newer = not any(p['owner'] is new and p['svc'] is s for p in proxies) and ds.flag(0.4)
        if newer:
            sim.probe('successor-redefines-the-same-interface-names')
        cs2, path2 = make_exporter(new, ('X%d' if newer else 'Y%d') % services.index(s), path=s['path'])
        acq = Obs(sim, 'acquire').watch(rig.call(new, new['proto'].requestBusName, s['name']))
        rig.calm()
        if not (acq.fired and acq.fired[0][0] == 'ok' and acq.fired[0][1] == 1):
            raise Violation('C11/request-name', 'successor', 'successor could not acquire %s: %r / %r'
                            % (s['name'], rel.fired, acq.fired))
        exporters.append(new)
        s2 = {'exp': new, 'cs': cs2, 'path': s['path'], 'name': s['name'], 'nm': acq}
        services[services.index(s)] = s2
        owners = []
        for p in proxies:
            if p['svc'] is s and p.get('dest') == s['name']:
                p['retired'] = True
                if p['owner'] not in owners and p['kind'].startswith('introspect'):
                    owners.append(p['owner'])
        for c in owners or callers[:1]:
            get_proxy(c, s2, force_kind='introspect-replace' if newer else 'introspect')
        sim.probe('name-handed-over-then-introspected-again')
        sched.run(300, None, invariant)
        sched.drain(600, None, invariant)
        for p in proxies:
            if p['svc'] is s2 and p['prox'] is None:
                raise Violation('C11/proxy-failed', 'after handover',
                                '%s could not obtain a proxy for %s %s after the name changed hands: %r'
                                % (p['owner']['name'], p['dest'], s2['path'], p['failed'] and p['failed'].value))

    while rounds[0] > 0:
        rounds[0] -= 1
        if handover and rounds[0] == 0:
            do_handover()
        budget[0] = 1 + ds.choose(5 if ctx.tier == 'thorough' else 3)
        sim.step = 0
        sched.run(400, extra, invariant)
        budget[0] = 0
        ok = sched.drain(800, extra, invariant)
        if not ok:
            raise Violation('C11/liveness', 'no quiescence', 'drain did not reach quiescence')
        # ---- oracle for this round --------------------------------------------------
        for call in calls:
            if call.get('judged'):
                continue
            call['judged'] = True
            p = call['p']
            what = '%s -> %s %s.%s(%r)' % (p['owner']['name'], p['dest'], call['iface'],
                                           call['member'], call['ref'])
            if len(call['obs'].fired) != 1:
                raise Violation('C11/completion', '%d completions' % len(call['obs'].fired),
                                'call %s completed %d times within the drain bound'
                                % (what, len(call['obs'].fired)))
            key = (p['svc']['exp']['name'], rig.unique(p['owner']), call['serial'])
            rec = invocations.get(key)
            kind, val = call['obs'].fired[0]
            if rec is None:
                raise Violation('C11/not-invoked', p['kind'],
                                'call %s never reached its implementation; caller got %s %r'
                                % (what, kind, getattr(val, 'value', val)))
            rec['claimed'] = True
            m = rec['m']
            if (m.iface, m.name) != (call['iface'], call['member']) and not (
                    m.shared_with is None and p['svc']['cs'].lookup(call['iface'], call['member'])
                    and (p['svc']['cs'].lookup(call['iface'], call['member']).shared_with is m)):
                raise Violation('C11/wrong-method', 'binding', 'call %s ran %r' % (what, m))
            if rc.canon(rec['args']) != rc.canon(rc.plain_body(call['sig_in'], call['ref'])):
                raise Violation('C11/arguments', 'differ', 'call %s: implementation got %r'
                                % (what, rec['args']))
            if m.wants_caller and rec['caller'] != rig.unique(p['owner']):
                raise Violation('C11/caller', 'dbusCaller', 'dbusCaller %r, caller is %r'
                                % (rec['caller'], rig.unique(p['owner'])))
            out = rec['out']
            if out[0] == 'value':
                want = expected_value(call['sig_out'], out[1])
                if kind != 'ok' or rc.canon(val) != rc.canon(want):
                    raise Violation('C11/return-value', 'differs',
                                    'call %s: implementation returned %r, caller got %s %r'
                                    % (what, out[1], kind, getattr(val, 'value', val)))
                sim.state((nclients, p['kind'], 'value'))
            else:
                _, cls, text = out
                sim.probe('remote-error-mirrored')
                name = cls.dbusErrorName if hasattr(cls, 'dbusErrorName') else \
                    'org.txdbus.PythonException.' + cls.__name__
                if kind != 'err' or not val.check(t_error.RemoteError) or \
                        val.value.errName != name or val.value.message != text:
                    raise Violation('C11/remote-error', cls.__name__,
                                    'call %s: implementation raised %s(%r), caller got %s %r'
                                    % (what, cls.__name__, text, kind,
                                       (val.value.errName, val.value.message)
                                       if kind == 'err' and val.check(t_error.RemoteError)
                                       else getattr(val, 'value', val)))
                sim.state((nclients, p['kind'], 'raise'))
    # the foreign client's calls: exactly one reply each, mirroring the implementation
    for fc in fcalls:
        p = foreign['proto']
        rs = [m for m in p.messages if m.fields.get(rc.F_REPLY_SERIAL) == fc['serial']
              and m.mtype in (rc.METHOD_RETURN, rc.ERROR)]
        what = 'foreign call %s.%s(%r)' % (fc['iface'], fc['member'], fc['ref'])
        if len(rs) != 1:
            raise Violation('C11/completion', 'foreign call: %d replies' % len(rs),
                            '%s got %d replies' % (what, len(rs)))
        key = (fc['svc']['exp']['name'], p.unique, fc['serial'])
        rec = invocations.get(key)
        if rec is None:
            raise Violation('C11/not-invoked', 'foreign', '%s never reached its implementation; '
                            'reply %r' % (what, rs[0].describe()))
        rec['claimed'] = True
        if rc.canon(rec['args']) != rc.canon(rc.plain_body(fc['sig_in'], fc['ref'])):
            raise Violation('C11/arguments', 'foreign differ', '%s: implementation got %r'
                            % (what, rec['args']))
        out = rec['out']
        r = rs[0]
        if out[0] == 'value':
            if r.mtype != rc.METHOD_RETURN or (r.sig or '') != (fc['sig_out'] or '') or \
                    rc.canon(rc.plain_body(r.sig, r.body)) != rc.canon(rc.plain_body(fc['sig_out'], out[1])):
                raise Violation('C11/return-value', 'foreign differs',
                                '%s: implementation returned %r, reply is %r'
                                % (what, out[1], r.describe()))
        else:
            _, cls, text = out
            name = cls.dbusErrorName if hasattr(cls, 'dbusErrorName') else \
                'org.txdbus.PythonException.' + cls.__name__
            if r.mtype != rc.ERROR or r.fields.get(rc.F_ERROR_NAME) != name:
                raise Violation('C11/remote-error', 'foreign ' + cls.__name__,
                                '%s: implementation raised %s, reply is %r' % (what, cls.__name__,
                                                                              r.describe()))
    unclaimed = [k for k, r in invocations.items() if not r.get('claimed')]
    if unclaimed:
        raise Violation('C11/spurious-invocation', 'extra', 'invocations without a call: %r'
                        % (unclaimed[:3],))
