"""
C13 - built-in bus: a name has one live owner; ownership follows the request flags.

System: the real Bus; up to 4 peers - reference peers (raw RequestName with all 8 flag
combinations, ReleaseName, GetNameOwner, ListQueuedOwners) and real clients using
requestBusName / releaseBusName - on up to 2 well-known names; peers disconnect (close or
reset) and new ones connect.  Requests of different peers are concurrently in flight; the
scheduler decides the order in which the bus sees them.
Oracle: a set-valued reference model of the name table (DESIGN.md A.6) applied at each
request's processing instant at the bus; reply codes, lookups, queue listings and
NameAcquired signals are compared step by step.
"""
from twisted.internet import error as tierror

from simdbus import net, refcodec as rc
from simdbus.harness import BusRig, Obs, check_no_exceptions
from simdbus.kernel import Violation
from simdbus.sched import Scheduler

from txdbus import error as t_error

PROPERTY = 'C13'
LEVEL = 'exploration'
QUICK_RUNS = 12000
QUICK_BUDGET_S = 60
THOROUGH_BUDGET_S = 1200
RULE = ('histories of 3-25 RequestName (8 flag combinations) / ReleaseName / GetNameOwner / '
        'ListQueuedOwners / disconnect / connect issued by up to 4 peers (reference and real '
        'clients) on up to 2 names, requests concurrently in flight, seeded delivery order and '
        'read splitting; every history ends with lookups of every name by an observer')
STATE_MEASURE = 'distinct abstract name tables: per name the tuple of (peer index, allows replacement)'
PROBES = ['replacement-happened', 'queued', 'refused-do-not-queue', 'already-owner',
          'release-promotes-waiter', 'waiting-peer-releases', 'owner-disconnects-with-waiter',
          'waiting-peer-disconnects', 'release-not-owner', 'release-nonexistent',
          'requests-concurrently-in-flight', 'real-client-request', 'queue-of-three',
          'replaced-owner-fate-observed', 'reset-disconnect', 'ten-or-more-peers', 'peer-without-hello', 'kicked-by-the-bus', 'request-for-a-name-nobody-may-own',
          'request-without-reply', 'name-of-255-characters']
COMPONENTS = {
    'real': ['txdbus.bus.Bus (dbus_RequestName, dbus_ReleaseName, dbus_GetNameOwner, '
             'dbus_ListQueuedOwners, clientConnected/Disconnected)', 'txdbus.bus.BusProtocol',
             'BusAuthenticator', 'txdbus.client.DBusClientConnection.requestBusName/releaseBusName '
             '(real clients)', 'object handler dispatch of org.freedesktop.DBus'],
    'stub': ['transports', 'reference peers (reference codec)'],
}
ASSUMPTIONS = ['what becomes of a replaced owner (dropped or queued behind the new owner) and '
               'whether a re-request by the owner updates its replacement flag are left open by the '
               'statement: the model keeps both alternatives and prunes by observation',
               'NameLost / NameOwnerChanged are recorded, not required']
NAMES = ['org.sim.alpha', 'org.sim.beta']
LONG_NAME = 'org.sim.' + 'n' * 247          # exactly 255 characters: the longest legal name
E_NO_OWNER = 'org.freedesktop.DBus.Error.NameHasNoOwner'


# ---------------------------------------------------------------------------------------
# set-valued model: a state is {name: ((peer, allow), ...)} stored as a sorted tuple of items
def freeze(d):
    return tuple(sorted((n, tuple(q)) for n, q in d.items() if q))


def thaw(s):
    return {n: list(q) for n, q in s}


def m_request(state, c, n, A, R, D):
    """-> list of (successor, reply code, acquired?)"""
    d = thaw(state)
    q = d.get(n, [])
    if not q:
        d[n] = [(c, A)]
        return [(freeze(d), 1, True)]
    head, hallow = q[0]
    if head == c:
        d1 = thaw(state)
        d1[n][0] = (c, A)
        return [(freeze(d1), 4, False), (state, 4, False)]
    if hallow and R:
        rest = [e for e in q[1:] if e[0] != c]
        da = thaw(state)
        da[n] = [(c, A)] + rest
        db = thaw(state)
        db[n] = [(c, A), (head, hallow)] + rest
        dc = thaw(state)
        dc[n] = [(c, A)] + rest + [(head, hallow)]
        return [(freeze(da), 1, True), (freeze(db), 1, True), (freeze(dc), 1, True)]
    if D:
        d[n] = [e for e in q if e[0] != c]
        return [(freeze(d), 3, False)]
    if any(e[0] == c for e in q):
        d[n] = [(e[0], A) if e[0] == c else e for e in q]
        return [(freeze(d), 2, False)]
    d[n] = q + [(c, A)]
    return [(freeze(d), 2, False)]


def m_release(state, c, n):
    """-> (successor, reply, promoted peer or None)"""
    d = thaw(state)
    q = d.get(n, [])
    if not q:
        return state, 2, None
    if q[0][0] == c:
        q = q[1:]
        d[n] = q
        return freeze(d), 1, (q[0][0] if q else None)
    if any(e[0] == c for e in q):
        d[n] = [e for e in q if e[0] != c]
        return freeze(d), 1, None
    return state, 3, None


def scenario(ctx):
    ds, sim = ctx.ds, ctx.sim
    rig = BusRig(ctx, creds=ds.flag(0.5), prop='C13')
    sched = Scheduler(ctx)
    peers = []

    def connect(kind=None):
        kind = kind or ds.pickw([('ref', 3), ('real', 2), ('ref-nohello', 0.6)])
        if kind == 'ref-nohello':
            # a connection that never says Hello: the bus serves its calls to the bus all the same
            rec = rig.add_peer(unix=ds.flag(0.3), hello=False)
            rec['nohello'] = True
            sim.probe('peer-without-hello')
        else:
            rec = rig.add_peer(unix=ds.flag(0.3)) if kind == 'ref' else rig.add_client()
        rec['idx'] = len(peers)
        rec['alive'] = True
        rec['frames'] = 0          # how many of rec['sent'] have been processed by the model
        rec['seen_rcvd'] = len(rec['rcvd'])
        rec['pending'] = {}        # serial -> request descriptor
        rec['ends'] = []           # stream offsets at which each sent frame ends
        peers.append(rec)
        return rec

    script = ctx.preset.get('script')
    npeers = ctx.preset.get('npeers') or (2 + ds.choose(3))
    if script is None and ds.flag(0.05):
        npeers = 9 + ds.choose(3)       # unique names beyond ':1.9' (':1.10' sorts before ':1.2')
        sim.probe('ten-or-more-peers')
    for _ in range(npeers):
        connect('ref' if script is not None else None)
    observer = connect('ref')
    observer['observer'] = True
    names = NAMES[:1] if script is not None else NAMES[:1 + ds.choose(2)]
    if script is None and ds.flag(0.1):
        names = names[:1] + [LONG_NAME]
        sim.probe('name-of-255-characters')
    ctx.config.update(peers=[p['kind'] for p in peers], names=names)

    states = {freeze({})}
    budget = [3 + ds.choose(23 * (3 if ctx.tier == 'thorough' else 1))]
    results = []              # real-client deferred results to verify against wire replies
    uniq = {}                 # peer idx -> unique name

    for p in peers:
        uniq[p['idx']] = rig.unique(p)
    if len(set(uniq.values())) != len(uniq):
        raise Violation('C13/unique-names', 'duplicate', 'unique names not distinct: %r' % uniq)

    def note_sent(p):
        """record stream end offsets of frames newly written by p (one write per frame)"""
        pipe = p['conn'].pipes[0]
        while len(p['ends']) < len(p['sent']):
            # frames are written whole; reconstruct the end offset from the frame sizes
            prev = p['ends'][-1] if p['ends'] else p['base0']
            p['ends'].append(prev + len(p['sent'][len(p['ends'])].raw))

    for p in peers:
        # offset of the first binary byte on the client->bus pipe = total minus binary bytes so far
        p['base0'] = p['conn'].pipes[0].total - sum(len(m.raw) for m in p['sent'])
        note_sent(p)
        p['frames'] = len(p['sent'])

    def op_request(p):
        n = ds.pick(names)
        A, R, D = bool(ds.choose(2)), bool(ds.choose(2)), bool(ds.choose(2))
        flags = (1 if A else 0) | (2 if R else 0) | (4 if D else 0)
        noreply = p['kind'] == 'ref' and ds.flag(0.1)
        if p['kind'] == 'ref':
            m = p['proto'].bus_call('RequestName', 'su', [n, flags], flags=1 if noreply else 0)
        else:
            sim.probe('real-client-request')
            eu = bool(ds.choose(2))
            before = len(p['sent'])
            # flag arguments are truth values: any truthy / falsy object means what True / False mean
            def tv(b):
                return ds.pick([True, True, 1, 2, 4, 'yes']) if b else ds.pick([False, False, 0, None, ''])
            d = rig.call(p, p['proto'].requestBusName, n, allowReplacement=tv(A), replaceExisting=tv(R),
                         doNotQueue=tv(D), errbackUnlessAcquired=eu)
            m = p['sent'][-1]
            results.append({'p': p, 'serial': m.serial, 'obs': Obs(sim, 'req').watch(d), 'eu': eu,
                            'kind': 'request'})
            if m.body != [n, flags]:
                raise Violation('C13/client-flags', 'flags', 'requestBusName(allow=%s, replace=%s, '
                                'doNotQueue=%s) sent %r' % (A, R, D, m.body))
        p['pending'][m.serial] = ('request', n, A, R, D) if not noreply else ('request-noreply', n, A, R, D)
        note_sent(p)
        sim.log('op', 'request', p['idx'], n[:20], flags, noreply)

    BAD_NAMES = ['', ':1.99', 'nodots', 'a..b', 'org.sim.' + 'x' * 260]

    def op_invalid(p):
        # a name nobody may own: refused, and nothing about it exists afterwards
        bad = ds.pick(BAD_NAMES)
        what = ds.weighted([3, 2, 2])
        if what == 0:
            m = p['proto'].bus_call('RequestName', 'su', [bad, ds.choose(8)])
            p['pending'][m.serial] = ('invalid-request', bad)
            refused.add(bad)
        elif what == 1:
            m = p['proto'].bus_call('ReleaseName', 's', [bad])
            p['pending'][m.serial] = ('invalid-release', bad)
        else:
            m = p['proto'].bus_call('GetNameOwner', 's', [bad])
            p['pending'][m.serial] = ('invalid-owner', bad)
        note_sent(p)
        sim.probe('request-for-a-name-nobody-may-own')
        sim.log('op', 'invalid', p['idx'], what, bad[:12])

    refused = set()

    def op_release(p):
        n = ds.pick(names)
        if p['kind'] == 'ref':
            m = p['proto'].bus_call('ReleaseName', 's', [n])
        else:
            d = rig.call(p, p['proto'].releaseBusName, n)
            m = p['sent'][-1]
            results.append({'p': p, 'serial': m.serial, 'obs': Obs(sim, 'rel').watch(d),
                            'kind': 'release'})
        p['pending'][m.serial] = ('release', n)
        note_sent(p)
        sim.log('op', 'release', p['idx'], n)

    def op_lookup(p):
        n = ds.pick(names)
        which = ds.pick(['GetNameOwner', 'ListQueuedOwners'])
        if p['kind'] == 'ref':
            m = p['proto'].bus_call(which, 's', [n])
        else:
            fn = p['proto'].getNameOwner if which == 'GetNameOwner' else p['proto'].listQueuedBusNameOwners
            d = rig.call(p, fn, n)
            d.addErrback(lambda f: None)
            m = p['sent'][-1]
        p['pending'][m.serial] = (which, n)
        note_sent(p)
        sim.log('op', which, p['idx'], n)

    def op_disconnect(p):
        how = ds.pick(['close', 'reset'])
        if p.get('nohello') and ds.flag(0.6):
            how = 'kicked'
        sim.log('op', 'disconnect', p['idx'], how)
        p['alive'] = False
        if how == 'kicked':
            # a call to another peer before Hello: the bus drops the connection
            sim.probe('kicked-by-the-bus')
            sim.fault('close')
            other = [q for q in peers if q is not p and q['alive']]
            dest = uniq[other[ds.choose(len(other))]['idx']] if other else ':1.999'
            p['proto'].send(rc.Msg(rc.METHOD_CALL, p['proto'].next_serial(),
                                   {rc.F_PATH: '/x', rc.F_INTERFACE: 'org.sim.X', rc.F_MEMBER: 'Poke',
                                    rc.F_DESTINATION: dest}))
            note_sent(p)
            return
        if how == 'reset':
            sim.probe('reset-disconnect')
            sim.fault('reset')
            pipe = p['conn'].pipes[0]
            keep = ds.choose(len(pipe.buf) + 1)
            p['conn'].reset(keep_ab=keep)
            p['cut'] = pipe.total
        else:
            sim.fault('close')
            if p['kind'] == 'ref':
                p['proto'].transport.loseConnection()
            else:
                rig.call(p, p['proto'].disconnect)

    def extra():
        ops = []
        if budget[0] > 0:
            def op():
                budget[0] -= 1
                live = [p for p in peers if p['alive'] and not p.get('observer')]
                k = ds.weighted([6, 3, 2, 1, 0.7])
                if k == 4 and len(peers) < 7:
                    q = connect()
                    uniq[q['idx']] = rig.unique(q)
                    if list(uniq.values()).count(uniq[q['idx']]) > 1:
                        raise Violation('C13/unique-names', 'reused',
                                        'unique name %s handed out twice' % uniq[q['idx']])
                    q['base0'] = q['conn'].pipes[0].total - sum(len(m.raw) for m in q['sent'])
                    note_sent(q)
                    q['frames'] = len(q['sent'])
                    return
                if not live:
                    return
                p = live[ds.choose(len(live))]
                if p['kind'] == 'ref' and ds.flag(0.08):
                    op_invalid(p)
                elif k == 0 or k == 4:
                    op_request(p)
                elif k == 1:
                    op_release(p)
                elif k == 2:
                    op_lookup(p)
                else:
                    if len(live) > 1:
                        op_disconnect(p)
            ops.append(('op', op))
        return {'op': ops}

    gone = set()

    def observed_replies(p):
        new = p['rcvd'][p['seen_rcvd']:]
        p['seen_rcvd'] = len(p['rcvd'])
        return new

    def acquired_signals(msgs, name):
        return [m for m in msgs if m.mtype == rc.SIGNAL and m.fields.get(rc.F_MEMBER) == 'NameAcquired'
                and m.body and m.body[0] == name]

    def apply_request(p, serial, desc):
        nonlocal states
        c = p['idx']
        # everything the bus wrote to anybody while it processed this request
        seg = rig.segment(p['name'], serial)
        if seg is None:
            raise Violation('C13/harness', 'not processed', 'request %r not in the journal' % (desc,))
        new_by_peer = {q['idx']: seg.get(q['name'], []) for q in peers}
        mine = [m for m in new_by_peer[c] if m.fields.get(rc.F_REPLY_SERIAL) == serial]
        if desc[0] == 'request-noreply':
            # flagged NO_REPLY_EXPECTED: the request takes effect all the same; without a reply
            # code every outcome the statement allows is kept and later lookups prune
            sim.probe('request-without-reply')
            _, n, A, R, D = desc
            succ = set()
            for s in states:
                for s2, rcode, acq in m_request(s, c, n, A, R, D):
                    succ.add(s2)
            states = succ
            return
        if len(mine) != 1:
            raise Violation('C13/reply-count', desc[0], 'request %r of peer %d got %d replies'
                            % (desc, c, len(mine)))
        r = mine[0]
        kind = desc[0]
        if kind.startswith('invalid-'):
            bad = desc[1]
            if kind == 'invalid-request':
                ok = r.mtype == rc.ERROR
            elif kind == 'invalid-release':
                # nothing of that name exists (2), or the name is refused as such
                ok = (r.mtype == rc.METHOD_RETURN and r.body == [2]) or r.mtype == rc.ERROR
            else:
                ok = r.mtype == rc.ERROR and r.fields.get(rc.F_ERROR_NAME) in (
                    E_NO_OWNER, 'org.freedesktop.DBus.Error.InvalidArgs')
            if not ok:
                raise Violation('C13/invalid-name', kind[8:] + (' after a refused request' if bad in refused else ''),
                                '%s for the name %r (which nobody may own) answered %r'
                                % (kind[8:], bad[:20], r.describe()))
            for q in peers:
                if acquired_signals(new_by_peer.get(q['idx'], []), bad):
                    raise Violation('C13/invalid-name', 'NameAcquired', 'NameAcquired for %r' % bad[:20])
            return
        if kind == 'request':
            _, n, A, R, D = desc
            if r.mtype != rc.METHOD_RETURN or r.sig != 'u':
                raise Violation('C13/reply', 'not u', 'RequestName answered %r' % (r.describe(),))
            code = r.body[0]
            succ = set()
            exp_codes = set()
            acq_expected = None
            had_owner = any(dict(s).get(n) for s in states)
            for s in states:
                for s2, rcode, acq in m_request(s, c, n, A, R, D):
                    exp_codes.add(rcode)
                    if rcode == code:
                        succ.add(s2)
                        acq_expected = acq
            if not succ:
                q = sorted(set(tuple(e[0] for e in dict(s).get(n, ())) for s in states))
                raise Violation('C13/reply-code',
                                'RequestName(allow=%d,replace=%d,noqueue=%d) by %s -> %d, expected %s'
                                % (A, R, D, relation(states, c, n), code, sorted(exp_codes)),
                                'peer %d RequestName(%s, allow=%s replace=%s doNotQueue=%s) answered '
                                '%d; queue(s) before: %r (owner allows replacement: %r); the '
                                'statement implies %r' % (c, n, A, R, D, code, q,
                                                          owner_allow(states, n), sorted(exp_codes)))
            states = succ
            got_acq = acquired_signals(new_by_peer[c], n)
            # (the reply code already tells the requester; the statement requires the signal
            # only for promotions, so none is tolerated here, several are not)
            if acq_expected and len(got_acq) > 1:
                raise Violation('C13/name-acquired', 'new owner told %d times' % len(got_acq),
                                'peer %d became owner of %s but received %d NameAcquired'
                                % (c, n, len(got_acq)))
            if not acq_expected and got_acq:
                raise Violation('C13/name-acquired', 'spurious', 'peer %d got NameAcquired(%s) '
                                'with reply code %d' % (c, n, code))
            # a request promotes nobody but (possibly) the requester
            for q in peers:
                if q['idx'] != c and acquired_signals(new_by_peer.get(q['idx'], []), n):
                    raise Violation('C13/name-acquired', 'bystander told during a request',
                                    'peer %d received NameAcquired(%s) while peer %d\'s RequestName '
                                    '(answered %d) was processed; it is %s'
                                    % (q['idx'], n, c, code, relation(states, q['idx'], n)))
            if code == 1 and had_owner:
                sim.probe('replacement-happened')
            elif code in (2, 3, 4):
                sim.probe({2: 'queued', 3: 'refused-do-not-queue', 4: 'already-owner'}[code])
        elif kind == 'release':
            _, n = desc
            if r.mtype != rc.METHOD_RETURN or r.sig != 'u':
                raise Violation('C13/reply', 'not u', 'ReleaseName answered %r' % (r.describe(),))
            code = r.body[0]
            succ = set()
            exp = set()
            rel_before = relation(states, c, n)
            problems = []
            for s in states:
                s2, rcode, prom = m_release(s, c, n)
                exp.add(rcode)
                if rcode != code:
                    continue
                ok, why = acquisition_consistent(new_by_peer, n, prom)
                if ok:
                    succ.add(s2)
                    if prom is not None:
                        sim.probe('release-promotes-waiter')
                else:
                    problems.append(why)
            if not succ and problems:
                raise Violation('C13/name-acquired', problems[0][0], problems[0][1])
            if not succ:
                raise Violation('C13/reply-code',
                                'ReleaseName by %s -> %d, expected %s' % (rel_before, code, sorted(exp)),
                                'peer %d ReleaseName(%s) answered %d; it is %s; the statement '
                                'implies %r' % (c, n, code, rel_before, sorted(exp)))
            if len(succ) < len(states):
                sim.probe('replaced-owner-fate-observed')
            states = succ
            if rel_before == 'waiting':
                sim.probe('waiting-peer-releases')
            if code == 3:
                sim.probe('release-not-owner')
            if code == 2:
                sim.probe('release-nonexistent')
        else:
            which, n = desc
            check_lookup(which, n, r, c)
        for s in states:
            for nn, q in s:
                ids = [e[0] for e in q]
                if len(ids) >= 3:
                    sim.probe('queue-of-three')
                sim.state((nn, tuple((i, a) for i, a in q)))

    def acquisition_consistent(new_by_peer, n, prom):
        """the NameAcquired(n) signals written in this segment fit 'prom was promoted'"""
        for q in peers:
            got = acquired_signals(new_by_peer.get(q['idx'], []), n)
            if q['idx'] == prom:
                if len(got) != 1 and q['conn'].b.state == net.OPEN:
                    return False, ('promoted peer told %d times' % len(got),
                                   'peer %d was promoted to owner of %s but received %d '
                                   'NameAcquired' % (prom, n, len(got)))
            elif got:
                return False, ('spurious', 'peer %d received NameAcquired(%s) although %s'
                               % (q['idx'], n, 'peer %d was promoted' % prom if prom is not None
                                  else 'nobody was promoted'))
        return True, None

    def relation(sts, c, n):
        rels = set()
        for s in sts:
            q = dict(s).get(n, ())
            ids = [e[0] for e in q]
            if not ids:
                rels.add('nobody owns it')
            elif ids[0] == c:
                rels.add('owner')
            elif c in ids:
                rels.add('waiting')
            else:
                rels.add('unrelated')
        return '/'.join(sorted(rels))

    def owner_allow(sts, n):
        return sorted(set(dict(s).get(n, ((None, None),))[0][1] for s in sts), key=str)

    def check_lookup(which, n, r, c):
        nonlocal states
        keep = set()
        for s in states:
            q = dict(s).get(n, ())
            ids = [uniq[e[0]] for e in q]
            if which == 'GetNameOwner':
                if not ids:
                    ok = (r.mtype == rc.ERROR and r.fields.get(rc.F_ERROR_NAME) == E_NO_OWNER)
                else:
                    ok = (r.mtype == rc.METHOD_RETURN and r.body == [ids[0]])
            else:
                if not ids:
                    ok = (r.mtype == rc.ERROR and r.fields.get(rc.F_ERROR_NAME) == E_NO_OWNER)
                else:
                    ok = (r.mtype == rc.METHOD_RETURN and r.body == [ids])
            if ok:
                keep.add(s)
        if not keep:
            exp = sorted(set(tuple(uniq[e[0]] for e in dict(s).get(n, ())) for s in states))
            got = r.body if r.mtype == rc.METHOD_RETURN else r.fields.get(rc.F_ERROR_NAME)
            dead = [u for u in (r.body[0] if r.mtype == rc.METHOD_RETURN and which != 'GetNameOwner'
                                else (r.body if r.mtype == rc.METHOD_RETURN else []))
                    if u in [uniq[i] for i in gone]]
            raise Violation('C13/lookup', which + (' lists a disconnected peer' if dead else ' disagrees'),
                            '%s(%s) answered %r; the model has queue(s) %r (disconnected peers: %r)'
                            % (which, n, got, exp, sorted(uniq[i] for i in gone)))
        if len(keep) < len(states):
            sim.probe('replaced-owner-fate-observed')
        states = keep

    def apply_disconnect(p):
        nonlocal states
        c = p['idx']
        gone.add(c)
        seg = rig.lost_segment(p['name']) or {}
        new_by_peer = {q['idx']: seg.get(q['name'], []) for q in peers}
        succ = set()
        problems = []
        for s in states:
            cur = s
            fine = True
            for n in names:
                rel = relation({cur}, c, n)
                cur2, code, prom = m_release(cur, c, n)
                ok, why = acquisition_consistent(new_by_peer, n, prom)
                if not ok:
                    fine = False
                    problems.append(why)
                if rel == 'owner' and prom is not None:
                    sim.probe('owner-disconnects-with-waiter')
                elif rel == 'waiting':
                    sim.probe('waiting-peer-disconnects')
                cur = cur2
            if fine:
                succ.add(cur)
        if not succ:
            raise Violation('C13/name-acquired', 'after disconnect: ' + problems[0][0], problems[0][1])
        states = succ

    def invariant():
        check_no_exceptions(sim, 'C13')
        rig.check_wire('C13')
        inflight = sum(1 for p in peers if p['conn'].pipes[0].buf and p['pending'])
        if inflight >= 2:
            sim.probe('requests-concurrently-in-flight')
        # requests whose last byte reached the bus in this step, per peer, in order
        for p in peers:
            pipe = p['conn'].pipes[0]
            while p['frames'] < len(p['ends']) and p['ends'][p['frames']] <= pipe.base \
                    and ('cut' not in p or p['ends'][p['frames']] <= p['cut']):
                m = p['sent'][p['frames']]
                p['frames'] += 1
                desc = p['pending'].pop(m.serial, None)
                if desc is not None and p['conn'].b.state != net.LOST:
                    apply_request(p, m.serial, desc)
            if p['conn'].b.state == net.LOST and not p.get('disc_applied'):
                p['disc_applied'] = True
                p['alive'] = False
                apply_disconnect(p)

    rig.after_step = invariant
    if script is not None:
        # bounded-exhaustive sweep: a fixed history, every request processed before the next
        # one is issued, the queue listed by the observer after every step
        budget[0] = 0
        sim.nontrivial = True
        for who, what, flags in script:
            p = peers[who]
            if not p['alive']:
                continue
            n = names[0]
            sim.sched('script', who, what, flags)
            if what == 'req':
                m = p['proto'].bus_call('RequestName', 'su', [n, flags])
                p['pending'][m.serial] = ('request', n, bool(flags & 1), bool(flags & 2), bool(flags & 4))
            elif what == 'rel':
                m = p['proto'].bus_call('ReleaseName', 's', [n])
                p['pending'][m.serial] = ('release', n)
            else:
                p['alive'] = False
                p['proto'].transport.loseConnection()
            note_sent(p)
            rig.calm()
            m = observer['proto'].bus_call('ListQueuedOwners', 's', [n])
            observer['pending'][m.serial] = ('ListQueuedOwners', n)
            note_sent(observer)
            rig.calm()
    sched.run(800 * (3 if ctx.tier == 'thorough' else 1), extra, invariant)
    budget[0] = 0
    ok = sched.drain(800 * (3 if ctx.tier == 'thorough' else 1), None, invariant)
    if not ok:
        raise Violation('C13/liveness', 'no quiescence', 'drain did not reach quiescence')
    # final lookups by the observer, one at a time
    for n in names:
        for which in ('GetNameOwner', 'ListQueuedOwners'):
            m = observer['proto'].bus_call(which, 's', [n])
            observer['pending'][m.serial] = (which, n)
            note_sent(observer)
            sched.drain(50, None, invariant)
    # real clients: the Deferred's result mirrors the wire reply
    for r in results:
        p = r['p']
        wire = [m for m in p['rcvd'] if m.fields.get(rc.F_REPLY_SERIAL) == r['serial']]
        if not wire or not r['obs'].fired:
            continue
        code = wire[0].body[0] if wire[0].mtype == rc.METHOD_RETURN else None
        kind, val = r['obs'].fired[0]
        if kind == 'err' and val.check(tierror.ConnectionDone, tierror.ConnectionLost):
            continue          # the client went away before the reply reached it
        if r['kind'] == 'request' and r['eu'] and code in (2, 3):
            if kind != 'err' or not val.check(t_error.FailedToAcquireName) or \
                    val.value.returnCode != code:
                raise Violation('C13/client-result', 'errbackUnlessAcquired',
                                'reply code %r, requestBusName result %s %r' % (code, kind, val))
        elif code is not None:
            if kind != 'ok' or val != code:
                raise Violation('C13/client-result', 'code', 'reply code %r, result %s %r'
                                % (code, kind, val))


def sweep(tier):
    """every history of length <= 3 (thorough: 4 for 2 peers) of RequestName (8 flag
    combinations) / ReleaseName / disconnect by 2 and 3 peers on one name"""
    import itertools
    out = []
    for npeers, maxlen in ((2, 3 if tier == 'quick' else 4), (3, 2 if tier == 'quick' else 3)):
        syms = []
        for p in range(npeers):
            syms += [(p, 'req', f) for f in range(8)] + [(p, 'rel', 0), (p, 'disc', 0)]
        for n in range(1, maxlen + 1):
            for seq in itertools.product(syms, repeat=n):
                out.append({'script': [list(x) for x in seq], 'npeers': npeers})
    return [('all histories of RequestName x 8 flags / ReleaseName / disconnect: 2 peers <= %d steps, '
             '3 peers <= %d steps' % ((3, 2) if tier == 'quick' else (4, 3)), out)]
