"""
C08 - each remote call completes exactly once, with the reply that belongs to it.

System: one real DBusClientConnection authenticated against a scripted daemon; the
method-call deadlines run on the simulated clock.
Faults: replies reordered / duplicated / unsolicited / withheld, error-after-return,
deadline-versus-reply races, stalls, graceful close and reset at arbitrary steps.
Oracle: pending-call model keyed by the serial read off the wire (DESIGN.md A.3).
"""
from twisted.internet import defer, error as tierror

from simdbus import gen, net, refcodec as rc
from simdbus.harness import ClientRig, Obs, check_no_exceptions, check_no_logged_errors, exc_key
from simdbus.kernel import Violation
from simdbus.sched import Scheduler

from txdbus import client as t_client, error as t_error

PROPERTY = 'C08'
LEVEL = 'exploration'
QUICK_RUNS = 60000
QUICK_BUDGET_S = 60
THOROUGH_BUDGET_S = 900
RULE = ('1-6 concurrent callRemote()s (with/without deadline, expectReply, declared return '
        'signature) against a scripted daemon that per call returns, errors, stays silent, '
        'duplicates, answers unknown serials, or sends error-after-return, with replies '
        'emitted in scheduler-chosen order; seeded interleaving of deliveries, timers, new '
        'calls, stalls, close and reset')
STATE_MEASURE = 'order type of the completion events (return/error/timeout/loss/sigmismatch) of a run'
PROBES = ['reply-and-deadline-both-enabled', 'reply-after-timeout', 'duplicate-reply-delivered',
          'unsolicited-reply-delivered', 'loss-with-pending-calls', 'replies-out-of-call-order',
          'sig-mismatch', 'call-issued-from-callback', 'second-connection-same-serials',
          'identical-call-in-flight-twice', 'serial-wrap-around',
          'hang-up-from-callback', 'deadline-refused-by-the-reactor', 'call-after-the-loss', 'call-cancelled-by-its-owner', 'call-cancelled-by-its-owner-from-a-callback']
COMPONENTS = {
    'real': ['txdbus.client.DBusClientConnection (callRemote, callRemoteMessage, '
             'methodReturnReceived, errorReceived, _onMethodTimeout, connectionLost, _cbCvtReply)',
             'txdbus.protocol framing', 'txdbus.message / txdbus.marshal',
             'txdbus.authentication.ClientAuthenticator', 'twisted Deferred / DelayedCall'],
    'stub': ['reactor clock (SimReactor)', 'transport (SimTransport)',
             'bus daemon (reference-coded scripted peer)'],
}
ASSUMPTIONS = ['reliable ordered stream; the daemon may misbehave at message level only',
               'calls are issued while the connection is established']

SVC_IFACE = 'org.sim.Svc'
SVC_DEST = 'org.sim.svc'


class Call:
    def __init__(self, cid):
        self.cid = cid
        self.serial = None
        self.dc = None
        self.retsig = t_client._NO_CHECK_RETURN
        self.expect_reply = True
        self.obs = None
        self.done = None           # expected completion once decided by the model
        self.member = None
        self.sig = None
        self.d = None
        self.user_cancelled = False


def expected_value(m):
    if not m.sig or not m.body:
        return None
    vals = rc.plain_body(m.sig, m.body)
    if len(vals) == 1 and m.sig[0] != '(':
        return vals[0]
    return vals


def scenario(ctx):
    ds, sim = ctx.ds, ctx.sim
    unix = ds.flag(0.3)
    start = 1 + ds.choose(2**32 - 10**6)
    if ds.flag(0.04):
        # a process that has sent almost 2^32 messages: serial numbers are about to wrap around
        start = 2**32 - 1 - ds.choose(8)
        sim.probe('serial-wrap-around')
    rig = ClientRig(ctx, unix=unix, serial_start=start)
    cl = rig.proto
    daemon = rig.daemon
    sched = Scheduler(ctx)
    ctx.config.update(unix=unix)
    # a second connection of the same process whose calls carry the SAME serial numbers (each
    # simulated process counts from the same start): bookkeeping must be per connection
    other = None
    if 'order' not in ctx.preset and ds.flag(0.25):
        sim.probe('second-connection-same-serials')
        rig2 = ClientRig(ctx, name='c2', serial_start=start, bus_name=':1.43')
        other = {'rig': rig2, 'calls': []}
        for k in range(1 + ds.choose(2)):
            d2 = rig2.call(rig2.proto.callRemote, '/svc', 'Other%d' % k, interface=SVC_IFACE,
                           destination=SVC_DEST)
            other['calls'].append((rig2.sent[-1].serial, Obs(sim, 'other%d' % k, []).watch(d2), 900 + k))

    scripted = 'order' in ctx.preset
    stashed = []                 # violations raised inside user callbacks (must not be swallowed)
    chained = [False]            # a call was issued from inside a callback during this step
    calls = []
    by_serial = {}
    pending = {}                 # serial -> Call   (the model)
    plans = []                   # daemon emissions not yet written: (label, fn)
    inflight = []                # (abs end offset in pipe d>c, ref msg) written, not yet fully delivered
    sink = []                    # observed firings (label, kind, value)
    expected = []                # model completions decided during the current step
    seen = [0]
    events = []
    budget = [1 + ds.choose(6 * (2 if ctx.tier == 'thorough' else 1))]
    later = [ds.choose(3)]
    pipe_dc = rig.conn.pipes[1]
    client_lost = [False]
    late_budget = [ds.choose(3)]
    completed = []

    def emit(m, label):
        def fn():
            before = pipe_dc.total
            daemon.send(m)
            if pipe_dc.total != before:
                inflight.append((pipe_dc.total, m))
        return (label, fn)

    def on_call(m):
        if m.mtype != rc.METHOD_CALL or m.fields.get(rc.F_DESTINATION) != SVC_DEST:
            return False
        c = by_serial.get(m.serial)
        if c is None:
            return True
        if scripted:
            return True                      # the sweep emits replies itself
        beh = ds.weighted([6, 3, 1.5, 1, 1, 1, 1])
        little = not ds.flag(0.2)

        def ret(tag='ret'):
            if c.retsig not in (t_client._NO_CHECK_RETURN, None, '') and ds.flag(0.7):
                sig = c.retsig
            else:
                sig = gen.signature(ds, 2)
            body = gen.body(ds, sig)
            f = {rc.F_REPLY_SERIAL: m.serial, rc.F_DESTINATION: rig.bus_name,
                 rc.F_SENDER: ':1.7'}
            return emit(rc.Msg(rc.METHOD_RETURN, daemon.next_serial(), f, sig, body,
                               little=little), '%s#%d' % (tag, c.cid))

        def err(tag='err'):
            k = ds.choose(4)
            sig, body = [('s', ['boom']), ('', []), ('si', ['bad', 7]), ('i', [3])][k]
            f = {rc.F_REPLY_SERIAL: m.serial, rc.F_ERROR_NAME: 'org.sim.Error.E%d' % k,
                 rc.F_DESTINATION: rig.bus_name, rc.F_SENDER: ':1.7'}
            return emit(rc.Msg(rc.ERROR, daemon.next_serial(), f, sig, body, little=little),
                        '%s#%d' % (tag, c.cid))

        if beh == 0:
            plans.append(ret())
        elif beh == 1:
            plans.append(err())
        elif beh == 2:
            sim.fault('peer-silent')
        elif beh == 3:
            r = ret()
            plans.append(r)
            plans.append(('dup#%d' % c.cid, r[1]))
            sim.fault('peer-dup')
        elif beh == 4:
            plans.append(ret())
            plans.append(err('err-after'))
            sim.fault('peer-second-reply')
        elif beh == 5:
            plans.append(err())
            plans.append(ret('ret-after'))
            sim.fault('peer-second-reply')
        else:
            plans.append(ret())
            f = {rc.F_REPLY_SERIAL: (m.serial + 1 + ds.choose(50)) % 2**32 or 1,
                 rc.F_DESTINATION: rig.bus_name}
            plans.append(emit(rc.Msg(rc.METHOD_RETURN, daemon.next_serial(), f, 'i', [99]),
                              'unsolicited'))
            sim.fault('peer-unsolicited')
        return True

    rig.handlers.append(on_call)

    # count the replies the connection has started to process (pass-through on the documented
    # protocol hooks): a call issued from inside a callback can only be completed by replies
    # that are processed after it was issued
    replies_seen = [0]
    frames_judged = [0]
    for hookname in ('methodReturnReceived', 'errorReceived'):
        def traced(msg, orig=getattr(cl, hookname)):
            replies_seen[0] += 1
            return orig(msg)
        setattr(cl, hookname, traced)

    def issue_after_loss():
        # the application has not noticed yet (or does not care) that the connection is gone and
        # calls, with a deadline: the call ends with TimeOut at its deadline (or fails at once) -
        # once, leaving no timer behind
        cid = len(calls)
        c = Call(cid)
        calls.append(c)
        c.timeout = ds.pick([1.0, 5.0, 30.0])
        before = set(id(t) for t in sim.timers)
        sim.probe('call-after-the-loss')
        sim.log('op', 'call-after-loss', cid)
        d = rig.call(cl.callRemote, '/svc', 'Late', interface=SVC_IFACE, destination=SVC_DEST,
                     timeout=c.timeout)
        c.obs = Obs(sim, cid, sink).watch(d)
        c.d = d
        c.member, c.sig = 'Late', ''
        new = [t for t in sim.timers if id(t) not in before]
        c.serial = ('late', cid)
        by_serial[c.serial] = c
        if c.obs.fired:
            # failed at once: nothing may be left behind for it
            if new and any(t.active() for t in new):
                raise Violation('C08/leak-timer', 'deadline armed for a call that failed at once',
                                'a call issued after the loss failed at once (%r) but armed %d timer(s)'
                                % (c.obs.fired[0], len(new)))
            calls.pop()
            sink[:] = [e for e in sink if e[0] != cid]
            return
        if len(new) != 1:
            raise Violation('C08/deadline', 'no timer', 'callRemote(timeout=...) after the loss created '
                            '%d timers' % len(new))
        c.dc = new[0]
        pending[c.serial] = c

    def issue(forced=None):
        cid = len(calls)
        c = Call(cid)
        calls.append(c)
        sig = gen.signature(ds, 2)
        body = gen.tx_body(ds, sig)[1] if sig else None
        kw = {}
        refused_deadline = False
        if forced is not None:
            if forced:
                kw['timeout'] = forced
        elif not scripted and ds.flag(0.03):
            # a deadline the reactor refuses (an overdrawn time budget, an unconverted string): the
            # call fails at once - and then it has not been sent and nothing is kept for it
            kw['timeout'] = ds.pick([-0.5, -30.0, '2.5'])
            refused_deadline = True
        elif ds.flag(0.5):
            c.timeout = ds.pick([1.0, 0.25, 5.0, 30.0])
            kw['timeout'] = c.timeout
        if forced is None and not refused_deadline and ds.flag(0.12):
            c.expect_reply = False
            kw['expectReply'] = False
        if ds.flag(0.5):
            c.retsig = ds.pick(['i', '', 's', None, 'ii', '(ii)', 'as'])
            kw['returnSignature'] = c.retsig
        before = set(id(t) for t in sim.timers)
        nsent = len(rig.sent)
        sim.log('op', 'call', cid, sig, sorted(kw.items(), key=str))
        # pollers repeat themselves: the very same call may be in flight more than once
        member = 'M%d' % cid if ds.flag(0.6) else ds.pick(['Poll', 'Refresh'])
        if any((not o.done) and o.member == member and o.sig == sig for o in calls[:-1]) and not sig:
            sim.probe('identical-call-in-flight-twice')
        c.member, c.sig = member, sig
        # addressed by well-known or by unique name; the answers come from the peer or from the
        # bus daemon on its behalf (the scripted daemon signs them org.freedesktop.DBus)
        dest = SVC_DEST if ds.flag(0.7) else ':1.77'
        d = rig.call(cl.callRemote, '/svc', member, interface=SVC_IFACE,
                     destination=dest, signature=sig or None, body=body, **kw)
        c.obs = Obs(sim, cid, sink).watch(d)
        c.d = d
        new = [t for t in sim.timers if id(t) not in before]
        if refused_deadline:
            sim.probe('deadline-refused-by-the-reactor')
            calls.pop()
            if len(rig.sent) != nsent or new:
                raise Violation('C08/send', 'refused call was sent',
                                'callRemote(timeout=%r) failed, yet %d message(s) were written and %d '
                                'timer(s) armed' % (kw['timeout'], len(rig.sent) - nsent, len(new)))
            if not c.obs.fired or c.obs.fired[0][0] != 'err':
                raise Violation('C08/send', 'refused deadline accepted',
                                'callRemote(timeout=%r) did not fail: %r' % (kw['timeout'], c.obs.fired))
            sink[:] = [e for e in sink if e[0] != cid]
            return
        if len(rig.sent) != nsent + 1:
            raise Violation('C08/send', 'call-not-written',
                            'callRemote wrote %d messages' % (len(rig.sent) - nsent))
        c.serial = rig.sent[-1].serial
        c.after_reply = replies_seen[0]
        if c.expect_reply:
            if c.serial in pending:
                raise Violation('C08/serial-reuse', 'pending serial reused',
                                'serial %d reused while still pending' % c.serial)
            pending[c.serial] = c
            by_serial[c.serial] = c
            if 'timeout' in kw:
                if len(new) != 1:
                    raise Violation('C08/deadline', 'no timer',
                                    'callRemote(timeout=...) created %d timers' % len(new))
                c.dc = new[0]
        else:
            by_serial[c.serial] = c
            c.done = ('value', None)
            expected.append(c)
        if forced is None and ds.flag(0.15):
            # user code reacting to the completion by issuing the next call from inside the
            # callback, i.e. while the connection is still processing the reply / timeout / loss
            def chain(result, cid=cid):
                if budget[0] > 0 and cl.transport.state == net.OPEN and not scripted:
                    budget[0] -= 1
                    sim.probe('call-issued-from-callback')
                    chained[0] = True
                    try:
                        issue()
                    except Violation as v:
                        stashed.append(v)
                return None
            d.addBoth(chain)
        elif forced is None and not scripted and ds.flag(0.06):
            # user code cancelling another outstanding call from inside the completion callback
            # (also while the loss of the connection is being reported)
            def cancel_other(result, me=c):
                cancel_one(exclude=me, from_callback=True)
                return None
            d.addBoth(cancel_other)
        elif forced is None and not scripted and ds.flag(0.05):
            # user code hanging up from inside the completion callback: replies already received
            # in the same read still belong to their calls
            def hangup(result):
                if cl.transport.state == net.OPEN:
                    sim.probe('hang-up-from-callback')
                    sim.log('op', 'hang-up-from-callback')
                    cl.disconnect()
                return None
            d.addBoth(hangup)

    def cancel_one(exclude=None, from_callback=False):
        # the owner of an outstanding call gives up on it: it completes with CancelledError there
        # and then; whatever arrives for it later completes nothing
        victims = [o for o in calls if o is not exclude and o.expect_reply and not o.done
                   and not o.user_cancelled and o.obs is not None and not o.obs.fired]
        if not victims:
            return
        v = victims[ds.choose(len(victims))]
        v.user_cancelled = True
        sim.probe('call-cancelled-by-its-owner' + ('-from-a-callback' if from_callback else ''))
        sim.log('op', 'cancel', v.cid, from_callback)
        if from_callback:
            chained[0] = True
        complete(v, ('cancelled', None))
        try:
            v.d.cancel()
        except Exception as e:
            stashed.append(Violation('C08/api-raised', exc_key(e), 'Deferred.cancel() of call#%d raised %r'
                                     % (v.cid, e)))

    def complete(c, how):
        if c.user_cancelled and how[0] != 'cancelled':
            return          # already completed by its owner; nothing more is owed
        c.done = how
        expected.append(c)
        completed.append(c)
        events.append(how[0][0])

    def extra():
        ops = []
        if budget[0] > 0 and client_lost[0] and not scripted and late_budget[0] > 0:
            def late():
                budget[0] -= 1
                late_budget[0] -= 1
                issue_after_loss()
            ops.append(('late-call', late))
        if budget[0] > 0 and cl.transport.state == net.OPEN:
            def op():
                budget[0] -= 1
                if not scripted and ds.flag(0.06):
                    cancel_one()
                else:
                    issue()
            ops.append(('call', op))
        faults = []
        if rig.conn.a.state == net.OPEN and calls:
            def close_c():
                sim.fault('close')
                sim.log('fault', 'client-disconnect')
                rig.call(cl.disconnect)

            def close_d():
                sim.fault('close')
                sim.log('fault', 'daemon-close')
                daemon.transport.loseConnection()

            def reset():
                sim.fault('reset')
                keep = ds.choose(len(pipe_dc.buf) + 1)
                rig.conn.reset(keep_ba=keep)
                inflight[:] = [(e, m) for e, m in inflight if e <= pipe_dc.total]
            faults = [('daemon-close', close_d), ('client-disconnect', close_c),
                      ('reset', reset)]
        return {'op': ops, 'fire': list(plans_actions()), 'fault': faults}

    def plans_actions():
        out = []
        for i, (label, fn) in enumerate(plans):
            def run(i=i, fn=fn):
                plans.pop(i)
                if daemon.transport.state != net.LOST:
                    fn()
            out.append((label, run))
        return out

    fired_dcs = set()

    def after_step():
        if stashed:
            raise stashed[0]
        # 1. replies whose last byte has now been delivered to the client
        if True:
            while inflight and inflight[0][0] <= pipe_dc.base:
                _, m = inflight.pop(0)
                frame_no = frames_judged[0]
                frames_judged[0] += 1
                rs = m.fields.get(rc.F_REPLY_SERIAL)
                c = pending.get(rs)
                if c is not None and frame_no < getattr(c, 'after_reply', 0):
                    c = None        # this reply was processed before the call existed
                if c is None:
                    if rs in by_serial:
                        sim.probe('duplicate-reply-delivered' if by_serial[rs].done and
                                  by_serial[rs].done[0] != 'timeout' else 'reply-after-timeout')
                    else:
                        sim.probe('unsolicited-reply-delivered')
                    continue
                del pending[rs]
                if m.mtype == rc.METHOD_RETURN:
                    if c.retsig != t_client._NO_CHECK_RETURN:
                        want = c.retsig or ''
                        if want != (m.sig or ''):
                            sim.probe('sig-mismatch')
                            complete(c, ('sigmismatch', None))
                            continue
                    complete(c, ('value', expected_value(m)))
                else:
                    vals = rc.plain_body(m.sig, m.body) if m.sig else []
                    msg = vals[0] if vals and isinstance(vals[0], str) else ''
                    complete(c, ('remote', (m.fields[rc.F_ERROR_NAME], msg, vals)))
        # 2. deadlines that fired in this step
        for c in calls:
            if c.dc is not None and c.dc.called and id(c.dc) not in fired_dcs:
                fired_dcs.add(id(c.dc))
                if c.serial in pending and pending[c.serial] is c:
                    del pending[c.serial]
                    complete(c, ('timeout', None))
        # 3. connection loss at the client
        if rig.conn.a.state == net.LOST and not client_lost[0]:
            client_lost[0] = True
            if pending:
                sim.probe('loss-with-pending-calls')
            for s in list(pending):
                c = pending.pop(s)
                complete(c, ('lost', None))
        # compare with what was observed
        new = sink[seen[0]:]
        seen[0] = len(sink)
        exp = list(expected)
        del expected[:]
        check_no_exceptions(sim, 'C08')
        rig.check_wire('C08')
        if len(new) != len(exp) or sorted(c.cid for c in exp) != sorted(l for l, _, _ in new):
            got_ids = [l for l, _, _ in new]
            exp_ids = [c.cid for c in exp]
            for cid in got_ids:
                if got_ids.count(cid) > 1 or (calls[cid].done and cid not in exp_ids):
                    raise Violation('C08/double-fire', 'completed again',
                                    'call#%d completed again: %r' % (cid, new))
            extra_ = [i for i in got_ids if i not in exp_ids]
            if extra_:
                raise Violation('C08/wrong-call', 'completion for a call the model left pending',
                                'calls %r completed but the model expects %r (observed %r)'
                                % (extra_, exp_ids, new))
            raise Violation('C08/missing', 'expected completion absent',
                            'model expects completions %r, observed %r' %
                            ([(c.cid, c.done[0]) for c in exp], [(l, k) for l, k, _ in new]))
        lost_step = any(c.done[0] == 'lost' for c in exp)
        was_chained, chained[0] = chained[0], False
        if not lost_step and not was_chained and [c.cid for c in exp] != [l for l, _, _ in new]:
            raise Violation('C08/order', 'completion order within one read',
                            'expected order %r observed %r' % ([c.cid for c in exp],
                                                               [l for l, _, _ in new]))
        for label, kind, val in new:
            check_completion(calls[label], kind, val)
        # timers of completed calls are gone
        for c in calls:
            if c.user_cancelled and pending.get(c.serial) is c:
                continue        # cancelled by its owner, not yet resolved on the wire
            if c.done and c.dc is not None and c.dc.active():
                raise Violation('C08/leak-timer', 'deadline still active after ' + c.done[0],
                                'call#%d completed (%s) but its deadline timer is still active'
                                % (c.cid, c.done[0]))
        book = getattr(cl, '_pendingCalls', None)
        ncan = sum(1 for c in pending.values() if c.user_cancelled)
        if book is not None and rig.conn.a.state != net.LOST and \
                not (len(pending) - ncan <= len(book) <= len(pending)):
            raise Violation('C08/bookkeeping', 'pending table size',
                            'connection holds %d pending entries, model %d'
                            % (len(book), len(pending)))

    def check_completion(c, kind, val):
        how, want = c.done
        def bad(why):
            raise Violation('C08/wrong-value', '%s expected' % how,
                            'call#%d expected %s %r, observed %s %r: %s'
                            % (c.cid, how, want, kind, val, why))
        if how == 'value':
            if kind != 'ok':
                bad('errback')
            if rc.canon(val) != rc.canon(want):
                bad('value differs')
        elif how == 'remote':
            if kind != 'err' or not val.check(t_error.RemoteError):
                bad('not a RemoteError')
            e = val.value
            if e.errName != want[0]:
                bad('errName %r' % e.errName)
            if e.message != want[1]:
                bad('message %r' % (e.message,))
            if rc.canon(e.values) != rc.canon(want[2]):
                bad('values %r' % (e.values,))
        elif how == 'sigmismatch':
            if kind != 'err' or not val.check(t_error.RemoteError):
                bad('not a RemoteError')
        elif how == 'timeout':
            if kind != 'err' or not val.check(t_error.TimeOut):
                bad('not TimeOut')
        elif how == 'lost':
            if kind != 'err' or not val.check(tierror.ConnectionDone, tierror.ConnectionLost):
                bad('not the loss reason')
        elif how == 'cancelled':
            if kind != 'err' or not val.check(defer.CancelledError):
                bad('not CancelledError')

    def probe_races():
        t = sim.next_timer()
        if t is not None and pipe_dc.buf and inflight:
            sim.probe('reply-and-deadline-both-enabled')

    def invariant():
        after_step()
        probe_races()

    if scripted:
        # deterministic sweep: N calls, then the given total order of {reply i, error i,
        # deadline i, loss} events, each delivered / fired on its own
        order = [tuple(e) for e in ctx.preset['order']]
        n = ctx.preset['n']
        budget[0] = 0
        sim.nontrivial = True
        rank = {}
        for k, e in enumerate(order):
            if e[0] == 't':
                rank[e[1]] = 1.0 + k
        for i in range(n):
            issue(forced=rank.get(i, 0))
        after_step()
        rig.calm()
        after_step()
        for e in order:
            sim.sched('ev', e)
            if e[0] in ('r', 'e') and daemon.transport.state == net.OPEN and not daemon.transport.broken:
                c = calls[e[1]]
                f = {rc.F_REPLY_SERIAL: c.serial, rc.F_DESTINATION: rig.bus_name, rc.F_SENDER: ':1.7'}
                if e[0] == 'r':
                    sig = c.retsig if c.retsig not in (t_client._NO_CHECK_RETURN, None, '') else 'i'
                    m = rc.Msg(rc.METHOD_RETURN, daemon.next_serial(), f, sig, gen.body(ds, sig))
                else:
                    f[rc.F_ERROR_NAME] = 'org.sim.Error.Swept'
                    m = rc.Msg(rc.ERROR, daemon.next_serial(), f, 's', ['swept'])
                emit(m, 'swept')[1]()
                if pipe_dc.buf and rig.conn.a.state == net.OPEN:
                    net.deliver(sim, pipe_dc, len(pipe_dc.buf))
            elif e[0] == 't':
                c = calls[e[1]]
                if c.dc is not None and c.dc.active():
                    sim.fire_timer(c.dc)
            elif e[0] == 'L':
                sim.fault('close')
                daemon.transport.loseConnection()
                for t in net.losable(sim):
                    t.do_lose()
            after_step()
        sim.state(('swept', n, tuple(x[0] for x in order)))
    else:
        # first call right away so that every run has work in flight
        budget[0] -= 1
        issue()
        after_step()
    sched.run((60 + 40 * len(calls) + 200) * (3 if ctx.tier == 'thorough' else 1), extra, invariant)
    # ---- drain: faults off, FIFO; then advance past every deadline -----------------
    budget[0] = 0
    ok = sched.drain(400 * (3 if ctx.tier == 'thorough' else 1), extra, after_step, fire_timers=True)
    if not ok:
        raise Violation('C08/liveness', 'no quiescence', 'drain did not reach quiescence')
    sim.advance(100.0)
    after_step()
    # calls still pending now have neither a reply nor a deadline: close the connection
    if rig.conn.a.state != net.LOST:
        daemon.transport.loseConnection()
        sched.drain(50, None, after_step)
    for c in calls:
        if not c.done or len(c.obs.fired) != 1:
            raise Violation('C08/exactly-once', '%d firings' % len(c.obs.fired),
                            'call#%d fired %d times by the end of the run (model: %r)'
                            % (c.cid, len(c.obs.fired), c.done))
    if sim.pending_timers():
        raise Violation('C08/leak-timer', 'timer left at the end',
                        '%d timers still pending after every call completed'
                        % len(sim.pending_timers()))
    if other is not None:
        r2 = other['rig']
        for serial, obs2, val in other['calls']:
            if obs2.fired:
                raise Violation('C08/wrong-call', 'call of another connection completed',
                                'a call pending on another connection of the process completed '
                                'although that connection saw no reply: %r' % (obs2.fired,))
        for serial, obs2, val in reversed(other['calls']):
            r2.daemon.method_return(serial, 'i', [val], dest=r2.bus_name, sender=':1.7')
        r2.calm()
        for serial, obs2, val in other['calls']:
            if obs2.fired != [('ok', val)]:
                raise Violation('C08/wrong-value', 'second connection',
                                'call on the second connection expected %r, observed %r'
                                % (val, obs2.fired))
    check_no_logged_errors(ctx, 'C08')
    if len(set(c.cid for c in completed)) > 1:
        order = [c.cid for c in completed]
        if order != sorted(order):
            sim.probe('replies-out-of-call-order')
    sim.state(tuple(events))


def sweep(tier):
    """every total order of {reply or error for call i, deadline of call i (for every subset of
    calls that have one), connection loss} for N = 1..3 calls (thorough: plus 30 000 sampled
    orders for N = 4)"""
    import itertools
    import random
    out = []
    for n in (1, 2, 3):
        for mask in range(2 ** n):
            for kinds in itertools.product('re', repeat=n):
                if n == 3 and kinds not in (('r', 'r', 'r'), ('e', 'r', 'r'), ('r', 'e', 'e')):
                    continue
                ev = [(kinds[i], i) for i in range(n)] + [('t', i) for i in range(n) if mask & (1 << i)] + [('L',)]
                for perm in itertools.permutations(ev):
                    out.append({'n': n, 'order': [list(e) for e in perm]})
    res = [('all orders of reply/error, deadline and loss events, N<=3 calls', out)]
    if tier != 'quick':
        rnd = random.Random(4)
        more = []
        for _ in range(30000):
            mask = rnd.randrange(16)
            ev = [(rnd.choice('re'), i) for i in range(4)] + [('t', i) for i in range(4) if mask & (1 << i)] + [('L',)]
            rnd.shuffle(ev)
            more.append({'n': 4, 'order': [list(e) for e in ev]})
        res.append(('sampled orders, N=4 calls', more))
    return res
