"""
C10 - every call to an exported object gets exactly one correctly addressed reply.

System: real DBusClientConnection exporting objects of generated classes towards a scripted
daemon that sends reference-encoded method calls (right and wrong path / interface / member
/ signature, interface omitted, NO_REPLY_EXPECTED set or clear), several in flight.
Implementation outcomes are drawn per invocation: value, tuple, None, unencodable value,
exception with/without dbusErrorName, Deferred completed or failed later by the scheduler
(possibly after the connection is gone).
Oracle: dispatch table of DESIGN.md A.4, evaluated on the reference-decoded wire.
"""
from twisted.internet import defer

from simdbus import gen, net, objgen, refcodec as rc
from simdbus.harness import ClientRig, check_no_exceptions, check_no_logged_errors
from simdbus.kernel import Violation
from simdbus.sched import Scheduler

PROPERTY = 'C10'
LEVEL = 'exploration'
QUICK_RUNS = 30000
QUICK_BUDGET_S = 60
THOROUGH_BUDGET_S = 900
RULE = ('generated exported classes (1-3 objects; interfaces with random member signatures, '
        'the same member on two interfaces, inheritance, dbus_<name> and decorator bindings, '
        'dbusCaller) x 1-12 reference-encoded calls (right/wrong path, interface, member, '
        'signature; interface omitted; no-reply flag) x outcomes (value, None, unencodable, '
        'exceptions with valid/invalid/no DBus name, Deferreds fired or failed later in any '
        'order, also after loss) under seeded delivery interleaving and read splitting')
STATE_MEASURE = 'distinct (call kind, outcome kind, reply kind) triples'
PROBES = ['unknown-object', 'unknown-method', 'invalid-args', 'interface-omitted',
          'no-reply-dispatched', 'deferred-fired-out-of-order', 'deferred-fired-after-loss',
          'same-member-two-interfaces', 'dbusCaller-requested', 'inherited-interface-called', 'interface-bound-across-classes',
          'unencodable-return', 'invalid-error-name', 'peer-ping', 'several-calls-in-flight',
          'nested-exception-class', 'deferred-already-fired', 'export-over-exported-path', 'base-class-instance-first', 'call-after-unexport',
          'two-callers-same-serial', 'error-name-per-instance', 'implementation-fails-with-a-remote-error', 'peer-interface-other-member']
COMPONENTS = {
    'real': ['txdbus.objects.DBusObjectHandler.handleMethodCallMessage / DBusObject.executeMethod',
             'txdbus.client.DBusClientConnection', 'txdbus.message / marshal', 'twisted Deferred'],
    'stub': ['transport', 'daemon / callers (reference codec)', 'exported classes (generated)'],
}
ASSUMPTIONS = ['a member name bound by a plain dbus_<name> method is not also declared on another '
               'interface with a different implementation (ambiguous by txdbus documentation)']

E_UNKNOWN_OBJECT = 'org.freedesktop.DBus.Error.UnknownObject'
E_UNKNOWN_METHOD = 'org.freedesktop.DBus.Error.UnknownMethod'
E_INVALID_ARGS = 'org.freedesktop.DBus.Error.InvalidArgs'


class NamedError(Exception):
    dbusErrorName = 'org.sim.Error.Custom'


class BadNamedError(Exception):
    dbusErrorName = 'not a valid error name'


class OddError(Exception):
    pass


class InstanceNamedError(Exception):
    """one class, the DBus error name given per instance (the idiom of txdbus.bus.DError)"""

    def __init__(self, name, text):
        Exception.__init__(self, text)
        self.dbusErrorName = name


class Outer:
    class NestedError(Exception):
        pass


def _local_error_class():
    class LocalError(Exception):
        pass
    return LocalError


LocalError = _local_error_class()
# class names that do not make a valid DBus error name
NonAsciiError = type('B\u0142\u0105dError', (Exception,), {})
LongNameError = type('E' + 'x' * 260, (Exception,), {})


class Unencodable:
    def __repr__(self):
        return '<unencodable>'       # no memory address: it ends up in an error message


def scenario(ctx):
    ds, sim = ctx.ds, ctx.sim
    rig = ClientRig(ctx, unix=ds.flag(0.2))
    cl = rig.proto
    daemon = rig.daemon
    sched = Scheduler(ctx)

    invocations = []        # (call token or None, mspec, args, caller)
    deferreds = []          # pending: dict(d, call)
    current = [None]

    def hook(obj, mspec, args, caller):
        rec = {'obj': obj, 'm': mspec, 'args': args, 'caller': caller}
        invocations.append(rec)
        kind = ds.weighted([5, 1, 2, 2, 1, 1, 3, 1])
        so = mspec.sig_out
        n = objgen.nargs(so)

        def good_value():
            ref, txv = gen.tx_body(ds, so)
            rec['ret'] = ref
            if n == 0:
                return None
            if n == 1:
                return txv[0]
            return tuple(txv)
        if kind == 0:
            rec['outcome'] = 'value'
            return good_value()
        if kind == 1:
            if n == 0 or so[0] == 'b':      # anything encodes as a boolean
                rec['outcome'] = 'value'
                return good_value()
            rec['outcome'] = 'unencodable'
            sim.probe('unencodable-return')
            return Unencodable()
        if kind in (2, 3, 4):
            cls = {2: OddError, 3: NamedError, 4: BadNamedError}[kind]
            if kind == 2 and ds.flag(0.4):
                cls = ds.pick([Outer.NestedError, LocalError, NonAsciiError, LongNameError, TypeError,
                               NotImplementedError, NotImplementedError])
                sim.probe('nested-exception-class')
            text = ds.pick(['kaboom', '', 'x: y', 'za\u017c\u00f3\u0142\u0107 \u20ac'])
            rec['outcome'] = 'raise'
            rec['exc'] = (cls, text)
            if kind == 4:
                sim.probe('invalid-error-name')
            if kind == 3 and ds.flag(0.4):
                nm = ds.pick(['org.sim.Error.NotFound', 'org.sim.Error.Busy', 'org.sim.Error.Denied',
                              'not valid either', b'org.sim.Error.Bytes', 42])
                rec['exc'] = (InstanceNamedError, text)
                rec['exc_name'] = nm
                sim.probe('error-name-per-instance')
                raise InstanceNamedError(nm, text)
            raise cls(text)
        if kind == 5:
            rec['outcome'] = 'value'
            rec['ret'] = None
            if n == 0:
                rec['ret'] = []
                return None
            # None for a method that declares return values: not encodable
            if so[0] == 'b':
                rec['outcome'] = 'value'
                return good_value()
            rec['outcome'] = 'unencodable'
            return None
        if kind == 7:
            # a Deferred that has already fired when it is returned
            rec['outcome'] = 'value'
            sim.probe('deferred-already-fired')
            return defer.succeed(good_value())
        d = defer.Deferred()
        rec['outcome'] = 'deferred'
        rec['d'] = d
        deferreds.append(rec)
        return d

    # ---- exported objects -----------------------------------------------------------
    specs = []
    objs = {}
    nobj = 1 + ds.choose(3)
    paths = ds.shuffle(['/', '/a', '/a/b', '/obj', '/a/bc'])[:nobj]

    def build():
        for i, p in enumerate(paths):
            base = None
            if ds.flag(0.35):
                base = objgen.class_spec(ds, 'B%d' % i, n_ifaces=1, rich=True)
            cs = objgen.class_spec(ds, 'C%d' % i, with_base=base, rich=True)
            txi = objgen.build_tx_ifaces(cs)
            klass = objgen.build_class(cs, hook, txi)
            if base is not None and cs.split_iface is None and ds.flag(0.4):
                # an instance of the base class itself is in use before the first instance of
                # the subclass exists
                bp = '/base%d' % i
                bo = base.klass(bp)
                objs[bp] = (bo, base)
                extra_paths.append(bp)
                cl.exportObject(bo)
                sim.probe('base-class-instance-first')
            o = klass(p)
            specs.append(cs)
            objs[p] = (o, cs)
            cl.exportObject(o)
    extra_paths = []
    rig.call(build)
    paths.extend(extra_paths)
    if ds.flag(0.2):
        # a different object is exported over a path that is already exported: it takes over
        sim.probe('export-over-exported-path')

        def rebuild():
            p = paths[ds.choose(len(paths))]
            cs = objgen.class_spec(ds, 'R0', rich=True)
            txi = objgen.build_tx_ifaces(cs)
            o = objgen.build_class(cs, hook, txi)(p)
            objs[p] = (o, cs)
            cl.exportObject(o)
        rig.call(rebuild)
    rig.calm()
    ctx.config.update(paths=paths)

    calls = []      # dict(msg, expect..., replies)
    unexported = [False]
    do_unexport = ds.flag(0.4)
    replies = {}    # (reply_serial, destination) -> [Msg]
    # every caller numbers its own calls: with a common starting point the callers' serials collide
    base = 1 + ds.choose(2 ** 31)
    collide = ds.flag(0.5)
    sser = {s: base + (0 if collide else 100000 * k) for k, s in enumerate([':1.50', ':1.51', ':1.7'])}

    def caller_serial(sender):
        sser[sender] += 1
        return sser[sender]
    nseen = [len(rig.sent)]
    budget = [1 + ds.choose(12 * (3 if ctx.tier == 'thorough' else 1))]

    gone = []       # paths unexported during the run

    def op_unexport():
        # the object stops being exported: calls not yet processed at this instant, and all later
        # ones, are calls to an unknown object (Deferred answers still owed are still owed)
        p = paths[ds.choose(len(paths))]
        paths.remove(p)
        gone.append(p)
        for c in calls:
            if c['path'] == p and c['end'] > rig.conn.pipes[1].base and c['expect'] != 'ping':
                c['expect'] = c['kindname'] = 'unknown-object'
        sim.log('op', 'unexport', p)
        rig.call(cl.unexportObject, p)

    def again_after_unexport():
        # the very call that worked before, now that the object is gone
        old = [c for c in calls if c['path'] in gone and c['iface'] is not None and c['kind'] == 0]
        if not old:
            return False
        o = old[ds.choose(len(old))]
        c = {'path': o['path'], 'sender': o['sender'], 'flags': 0, 'kind': 1,
             'kindname': 'unknown-object', 'iface': o['iface'], 'member': o['member'],
             'sig': o['sig'], 'body': gen.body(ds, o['sig']), 'expect': 'unknown-object'}
        m = daemon.call(c['path'], c['member'], c['iface'], c['sig'], c['body'], sender=c['sender'],
                        dest=rig.bus_name, flags=0, little=True, serial=caller_serial(c['sender']))
        c.update(serial=m.serial, msg=m, end=rig.conn.pipes[1].total, delivered=False)
        calls.append(c)
        sim.probe('call-after-unexport')
        sim.log('op', 'call', 'again-after-unexport', c['path'], c['iface'], c['member'])
        return True

    def pick_call():
        if gone and ds.flag(0.5) and again_after_unexport():
            return
        p = ds.pick(paths)
        o, cs = objs[p]
        ifs = cs.all_ifaces()
        cands = [(d, m) for d in ifs for m in d.methods]
        kind = ds.weighted([6, 1, 1, 1, 1, 1.5, 0.5])
        sender = ds.pick([':1.50', ':1.51', ':1.7'])
        flags = 1 if ds.flag(0.2) else 0
        if ds.flag(0.1):
            flags |= 2
        little = not ds.flag(0.2)
        c = {'path': p, 'sender': sender, 'flags': flags, 'kind': kind}
        if (kind == 6 or not cands) and ds.flag(0.3):
            # the Peer interface has Ping (answered for any path); anything else on it is looked
            # up like any other call
            if ds.flag(0.5):
                c['path'] = '/nope'
            c.update(kindname='peer-other-member', iface='org.freedesktop.DBus.Peer', member='Frobnicate',
                     sig='', body=[], expect='unknown-method' if c['path'] in objs and c['path'] not in gone
                     else 'unknown-object')
            sim.probe('peer-interface-other-member')
        elif kind == 6 or not cands:
            c.update(kindname='ping', iface='org.freedesktop.DBus.Peer', member='Ping', sig='',
                     body=[], expect='ping')
            sim.probe('peer-ping')
        else:
            d, (mn, si, so) = cands[ds.choose(len(cands))]
            iface, member, sig = d.name, mn, si
            expect = 'invoke'
            if kind == 1:
                c['path'] = ds.pick(['/nope', '/a/x', '/ab'])
                if c['path'] in objs:
                    c['path'] = '/nope'
                expect = 'unknown-object'
            elif kind == 2:
                iface = ds.pick(['org.sim.Missing', 'org.sim.C9'])
                if cs.iface(iface):
                    iface = 'org.sim.Missing'
                expect = 'unknown-method'
            elif kind == 3:
                member = 'NoSuchMember'
                expect = 'unknown-method'
            elif kind == 4:
                alt = [s for s in gen.SIMPLE_SIGS if s != si]
                sig = ds.pick(alt)
                expect = 'invalid-args'
            elif kind == 5:
                # only where the member name selects one declaration (else ambiguous)
                if sum(1 for dd in ifs if dd.method(mn)) == 1:
                    iface = None
                    sim.probe('interface-omitted')
            ref = gen.body(ds, sig)
            c.update(kindname=expect, iface=iface, member=member, sig=sig, body=ref, expect=expect)
        m = daemon.call(c['path'], c['member'], c['iface'], c['sig'], c['body'], sender=sender,
                        dest=rig.bus_name, flags=flags, little=little, serial=caller_serial(sender))
        if any(o['serial'] == m.serial and o['sender'] != sender for o in calls):
            sim.probe('two-callers-same-serial')
        c['serial'] = m.serial
        c['msg'] = m
        c['end'] = rig.conn.pipes[1].total
        c['delivered'] = False
        calls.append(c)
        sim.log('op', 'call', c['kindname'], c['path'], c['iface'], c['member'], c['sig'], flags)

    def extra():
        ops = []
        if budget[0] > 0 and daemon.transport.state == net.OPEN and not daemon.transport.broken:
            def op():
                budget[0] -= 1
                pick_call()
            ops.append(('call', op))
            if len(paths) > 1 and calls and not unexported[0]:
                def unexp():
                    unexported[0] = ds.flag(0.7)      # mostly one unexport per run
                    op_unexport()
                if do_unexport:
                    ops.append(('unexport', unexp))
        fires = []
        for i, rec in enumerate(deferreds):
            def fire(i=i, rec=rec):
                deferreds.pop(i)
                if i != 0:
                    sim.probe('deferred-fired-out-of-order')
                if rig.conn.a.state != net.OPEN:
                    sim.probe('deferred-fired-after-loss')
                how = ds.weighted([3, 1, 1, 0.7])
                if how == 3:
                    # the implementation passed the call on to another service, which failed: what
                    # it raises is a RemoteError like any other exception
                    from txdbus import error as t_error
                    e = t_error.RemoteError('org.sim.Error.Deep')
                    e.message = 'failed further down'
                    rec['outcome'] = 'raise'
                    rec['exc'] = (t_error.RemoteError, 'org.sim.Error.Deep: failed further down')
                    sim.probe('implementation-fails-with-a-remote-error')
                    sim.log('fire', 'remote-error')
                    rig.call(rec['d'].errback, e)
                    return
                m = rec['m']
                n = objgen.nargs(m.sig_out)
                if how == 0:
                    ref, txv = gen.tx_body(ds, m.sig_out)
                    rec['ret'] = ref
                    rec['outcome'] = 'value'
                    v = None if n == 0 else (txv[0] if n == 1 else tuple(txv))
                    sim.log('fire', 'value')
                    rig.call(rec['d'].callback, v)
                elif how == 1:
                    rec['outcome'] = 'raise'
                    rec['exc'] = (NamedError, 'late failure')
                    sim.log('fire', 'error')
                    rig.call(rec['d'].errback, NamedError('late failure'))
                else:
                    rec['outcome'] = 'raise'
                    rec['exc'] = (OddError, 'odd')
                    sim.log('fire', 'error')
                    rig.call(rec['d'].errback, OddError('odd'))
            fires.append(('fire%d' % i, fire))
        faults = []
        if rig.conn.a.state == net.OPEN and calls and not rig.conn.a.broken:
            def reset():
                sim.fault('reset')
                rig.conn.reset(keep_ab=ds.choose(len(rig.conn.pipes[0].buf) + 1),
                               keep_ba=ds.choose(len(rig.conn.pipes[1].buf) + 1))
            faults.append(('reset', reset))
        return {'op': ops, 'fire': fires, 'fault': faults}

    pipe_dc = rig.conn.pipes[1]
    matched = [0]

    def bind_invocations():
        """attribute new invocations to calls: invocations happen in call-delivery order"""
        # calls whose last byte has been delivered, in order
        for c in calls:
            if not c['delivered'] and c['end'] <= pipe_dc.base:
                c['delivered'] = True
                c['order'] = matched[0]
                matched[0] += 1

    def invariant():
        check_no_exceptions(sim, 'C10')
        rig.check_wire('C10')
        bind_invocations()
        new = rig.sent[nseen[0]:]
        nseen[0] = len(rig.sent)
        for m in new:
            if m.mtype in (rc.METHOD_RETURN, rc.ERROR):
                rs = m.fields.get(rc.F_REPLY_SERIAL)
                dst = m.fields.get(rc.F_DESTINATION)
                same = [c for c in calls if c['serial'] == rs]
                if not same:
                    raise Violation('C10/reply-serial', 'unknown serial',
                                    'reply carries reply_serial %r which no call used' % rs)
                c = next((c for c in same if c['sender'] == dst), None)
                if c is None:
                    raise Violation('C10/reply-destination', 'destination',
                                    'reply to %s addressed to %r' % (same[0]['sender'], dst))
                replies.setdefault((rs, dst), []).append(m)
                if len(replies[(rs, dst)]) > 1:
                    raise Violation('C10/second-reply', c['kindname'],
                                    'call serial %d of %s (%s) got a second reply: %r'
                                    % (rs, dst, c['kindname'], [r.describe() for r in replies[(rs, dst)]]))
        inflight = sum(1 for c in calls if c['delivered'] and (c['serial'], c['sender']) not in replies)
        if inflight > 1:
            sim.probe('several-calls-in-flight')

    sched.run(300 * (3 if ctx.tier == 'thorough' else 1), extra, invariant)
    budget[0] = 0
    ok = sched.drain(400 * (3 if ctx.tier == 'thorough' else 1), extra, invariant)
    if not ok:
        raise Violation('C10/liveness', 'no quiescence', 'drain did not reach quiescence')
    alive = rig.conn.a.state == net.OPEN
    # ---- per-call oracle -------------------------------------------------------------
    # invocations in order correspond to delivered 'invoke' calls in delivery order
    inv_iter = iter(invocations)
    delivered = sorted([c for c in calls if c['delivered']], key=lambda c: c['order'])
    for c in delivered:
        rs = replies.get((c['serial'], c['sender']), [])
        noreply = bool(c['flags'] & 1)
        exp = c['expect']
        if exp != 'invoke':
            if exp == 'ping':
                want_err = None
            else:
                want_err = {'unknown-object': E_UNKNOWN_OBJECT, 'unknown-method': E_UNKNOWN_METHOD,
                            'invalid-args': E_INVALID_ARGS}[exp]
                sim.probe(exp)
            if alive and not rs and not noreply:
                raise Violation('C10/no-reply', exp, 'call (%s) expecting a reply got none' % exp)
            for r in rs:
                if want_err is None:
                    if r.mtype != rc.METHOD_RETURN:
                        raise Violation('C10/wrong-reply', 'ping', 'Ping answered %r' % (r.describe(),))
                elif r.mtype != rc.ERROR or r.fields.get(rc.F_ERROR_NAME) != want_err:
                    raise Violation('C10/wrong-reply', exp,
                                    'call with %s answered %r, expected error %s'
                                    % (exp, r.describe(), want_err))
            sim.state((exp, '-', 'reply' if rs else 'none'))
            continue
        # dispatched call: exactly one invocation
        try:
            rec = next(inv_iter)
        except StopIteration:
            raise Violation('C10/not-invoked', 'no invocation',
                            'call %s.%s(%s) on %s was not dispatched to its implementation; '
                            'replies %r' % (c['iface'], c['member'], c['sig'], c['path'],
                                            [r.describe() for r in rs]))
        o, cs = objs[c['path']]
        m = rec['m']
        if c['iface'] is None:
            okm = m.name == c['member'] and cs.lookup(m.iface, m.name) is not None and \
                (cs.iface(m.iface).method(m.name)[1] == c['sig'] or True)
        else:
            want = cs.lookup(c['iface'], c['member'])
            if want is not None and want.shared_with is not None:
                want = want.shared_with
            okm = (m is want)
            if len([1 for d in cs.all_ifaces() if d.method(c['member'])]) > 1:
                sim.probe('same-member-two-interfaces')
            if cs.base and cs.base.iface(c['iface']):
                sim.probe('inherited-interface-called')
                if cs.split_iface == c['iface']:
                    sim.probe('interface-bound-across-classes')
        if rec['obj'] is not o or not okm:
            raise Violation('C10/wrong-implementation', 'binding',
                            'call %s.%s on %s ran %r' % (c['iface'], c['member'], c['path'], m))
        want_args = rc.canon(rc.plain_body(c['sig'], c['body']))
        if rc.canon(rec['args']) != want_args:
            raise Violation('C10/arguments', 'args', 'implementation got %r, call carried %r'
                            % (rec['args'], rc.plain_body(c['sig'], c['body'])))
        if m.wants_caller:
            sim.probe('dbusCaller-requested')
            if rec['caller'] != c['sender']:
                raise Violation('C10/caller', 'dbusCaller', 'dbusCaller=%r, sender was %r'
                                % (rec['caller'], c['sender']))
        if noreply:
            sim.probe('no-reply-dispatched')
            if rs:
                raise Violation('C10/reply-to-no-reply', rec['outcome'],
                                'call flagged NO_REPLY_EXPECTED was dispatched and answered: %r'
                                % (rs[0].describe(),))
            sim.state(('invoke', rec['outcome'], 'none'))
            continue
        if rec['outcome'] == 'deferred':
            raise Violation('C10/harness', 'deferred left', 'deferred never fired')
        if not rs:
            if alive and not rec.get('after_loss'):
                raise Violation('C10/no-reply', 'invoke/' + rec['outcome'],
                                'dispatched call %s.%s (outcome %s) got no reply'
                                % (c['iface'], c['member'], rec['outcome']))
            sim.state(('invoke', rec['outcome'], 'none'))
            continue
        r = rs[0]
        if rec['outcome'] == 'value':
            so = m.sig_out or ''
            if r.mtype != rc.METHOD_RETURN:
                raise Violation('C10/wrong-reply', 'value->error',
                                'implementation returned %r (declared %r) but the reply is %r'
                                % (rec.get('ret'), so, r.describe()))
            if (r.sig or '') != so:
                raise Violation('C10/return-signature', 'signature',
                                'reply signature %r, declared %r' % (r.sig, so))
            if rc.canon(rc.plain_body(r.sig, r.body)) != rc.canon(rc.plain_body(so, rec['ret'] or [])):
                raise Violation('C10/return-value', 'value', 'reply carries %r, implementation '
                                'returned %r' % (r.body, rec['ret']))
        elif rec['outcome'] == 'unencodable':
            if r.mtype != rc.ERROR:
                raise Violation('C10/wrong-reply', 'unencodable->return',
                                'unencodable return value answered %r' % (r.describe(),))
        else:
            cls, text = rec['exc']
            if cls is InstanceNamedError:
                name = rec['exc_name'] if isinstance(rec['exc_name'], str) and '.' in rec['exc_name'] \
                    else 'org.txdbus.InvalidErrorName'
            elif cls is NamedError:
                name = NamedError.dbusErrorName
            elif cls in (BadNamedError, NonAsciiError, LongNameError):
                name = 'org.txdbus.InvalidErrorName'
            else:
                name = 'org.txdbus.PythonException.' + cls.__name__
            if r.mtype != rc.ERROR or r.fields.get(rc.F_ERROR_NAME) != name:
                raise Violation('C10/error-name', cls.__name__,
                                '%s(%r) answered %r, expected error %s'
                                % (cls.__name__, text, r.describe(), name))
            msg = r.body[0] if r.body and isinstance(r.body[0], str) else None
            if msg is None or (msg != text and not (name == 'org.txdbus.InvalidErrorName' and msg.endswith(text))):
                raise Violation('C10/error-message', cls.__name__,
                                'error message %r, exception text %r' % (msg, text))
        sim.state(('invoke', rec['outcome'], 'reply'))
    extra_inv = list(inv_iter)
    if extra_inv:
        raise Violation('C10/spurious-invocation', 'extra',
                        '%d invocations beyond the dispatched calls: %r'
                        % (len(extra_inv), [(x['m'], x['args']) for x in extra_inv[:3]]))
    check_no_logged_errors(ctx, 'C10')
