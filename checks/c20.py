"""
C20 - file descriptors stay attached to the message that carried them.

Receive side: a scripted sender writes reference-encoded messages with 0-3 UNIX_FD
arguments (unix_fds header) interleaved with plain messages to the real framing / parsing
code; descriptors are opaque integers.  The scheduler chooses each descriptor's attach
position anywhere inside its own message (in sending order) and splits reads arbitrarily;
before a read is delivered every descriptor attached to one of its bytes is queued - exactly
the interleavings a stream socket can produce, including descriptors of message i+1 (and
i+2) queued before message i completes.
Send side: the real client's callRemote with 'h' arguments: one sendFileDescriptor per
descriptor, in argument order, before the write of that message; the header declares the
count.
"""
from simdbus import gen, net, refcodec as rc
from simdbus.harness import ClientRig, check_no_exceptions, exc_key
from simdbus.kernel import Node, Violation
from simdbus.peers import DumbPeer

import txdbus.protocol as tp
from txdbus import authentication, client as t_client

PROPERTY = 'C20'
LEVEL = 'exploration'
QUICK_RUNS = 80000
QUICK_BUDGET_S = 60
THOROUGH_BUDGET_S = 600
RULE = ('receive: 1-12 messages with 0-3 descriptors each (h arguments at top level, in '
        'arrays and structs, indices in and out of order) x seeded attach positions within the '
        'own message x seeded read partition; send: callRemote with 0-3 h arguments among '
        'other arguments')
STATE_MEASURE = 'distinct (descriptor counts per message, max descriptors queued ahead) tuples'
PROBES = ['fd-of-next-message-queued-early', 'fds-of-two-later-messages-queued',
          'fd-with-last-byte', 'fd-with-first-byte', 'plain-message-between-fd-messages',
          'index-out-of-order', 'three-descriptors', 'send-side', 'read-spans-messages', 'undecodable-message-with-descriptors',
          'dropped-at-undecodable-message', 'prepared-message-sent-twice', 'receiver-is-client-connection', 'receiver-accepts-pipelined-handshake', 'same-descriptor-in-two-arguments', 'reply-to-a-cancelled-call-carries-descriptors', 'handler-raises', 'minutes-between-reads']
COMPONENTS = {
    'real': ['txdbus.protocol.BasicDBusProtocol (fileDescriptorReceived, rawDBusMessageReceived)',
             'txdbus.message.parseMessage / txdbus.marshal unmarshal_unix_fd',
             'txdbus.client.DBusClientConnection.callRemote, txdbus.message._marshal (send side)'],
    'stub': ['transport with descriptor queue (SimTransport)', 'sender (reference codec)'],
}
ASSUMPTIONS = ['descriptors arrive in sending order, each no later than the last byte of its message',
               'the kernel delivers a descriptor together with the byte it is attached to']


def fd_signature(ds, nfd):
    """signature + body containing nfd 'h' values (indices), among other arguments"""
    idxs = list(range(nfd))
    if nfd > 1 and ds.flag(0.25):
        idxs = ds.shuffle(idxs)
    parts, body = [], []
    i = 0
    while i < nfd:
        k = ds.weighted([5, 1.5, 1.5, 1, 1]) if nfd - i >= 2 else ds.weighted([5, 1, 1, 1, 1])
        if ds.flag(0.3):
            t = ds.pick(['i', 's', 'u', 'y'])
            parts.append(t)
            body.append(gen.value(ds, t, 0))
        if k == 0:
            parts.append('h')
            body.append(idxs[i])
            i += 1
        elif k == 1:
            n = min(nfd - i, 1 + ds.choose(2))
            parts.append('ah')
            body.append(idxs[i:i + n])
            i += n
        elif k == 2:
            parts.append('(ih)')
            body.append((7, idxs[i]))
            i += 1
        elif k == 3:
            parts.append('a{sh}')
            body.append([('k%d' % i, idxs[i])])
            i += 1
        else:
            parts.append('v')
            body.append(rc.V('h', idxs[i]))
            i += 1
    if ds.flag(0.3):
        parts.append('s')
        body.append('tail')
    return ''.join(parts), body, idxs


def find_h(sig, body, plain):
    """[(index value, decoded value)] for every h in the signature, in order"""
    out = []

    def walk(t, ref, got):
        c = t[0]
        if c == 'h':
            out.append((ref, got))
        elif c == 'a':
            et = t[1:]
            if et[0] == '{':
                kt, vt = rc.split_sig(et[1:-1])
                for (k, r) in ref:
                    walk(vt, r, got.get(k) if isinstance(got, dict) else None)
                return
            for r, g in zip(ref, got):
                walk(et, r, g)
        elif c == 'v':
            walk(ref.sig, ref.value, got)
        elif c == '(':
            for st, r, g in zip(rc.split_sig(t[1:-1]), ref, got):
                walk(st, r, g)
    for t, r, g in zip(rc.split_sig(sig), body, plain):
        walk(t, r, g)
    return out


def recv_side(ctx):
    ds, sim = ctx.ds, ctx.sim
    record = []

    class Rec(tp.BasicDBusProtocol):
        _client = True
        authenticator = authentication.ClientAuthenticator

        def _got(self, m):
            record.append(m)
            if len(record) - 1 == raise_at[0]:
                # user code in the handler fails: the connection may be dropped there, or go on -
                # with every later message still getting its own descriptors
                raise RuntimeError('handler fails')

        methodCallReceived = signalReceived = methodReturnReceived = errorReceived = _got

    pipelined = False
    cancelled_serial = None
    raise_at = [None]
    client_rx = ds.flag(0.3)
    if client_rx:
        # the receiver is a real client connection (Hello answered, no call outstanding): replies
        # nobody waits for carry descriptors like any other message
        sim.probe('receiver-is-client-connection')
        rig = ClientRig(ctx, unix=True)
        proto, conn = rig.proto, rig.conn
        for hname in ('methodCallReceived', 'signalReceived', 'methodReturnReceived', 'errorReceived'):
            def traced(m, orig=getattr(proto, hname)):
                record.append(m)
                if m.__class__.__name__ != 'MethodCallMessage':
                    orig(m)           # (calls would be answered UnknownObject: not of interest)
            setattr(proto, hname, traced)
        tx = conn.b
        pipe = conn.pipes[1]
        if ds.flag(0.4):
            # the owner of an outstanding call gave up on it (d.cancel()); its reply, carrying
            # descriptors, comes all the same - followed by other descriptor-carrying messages
            sim.probe('reply-to-a-cancelled-call-carries-descriptors')
            dcan = rig.call(proto.callRemote, '/svc', 'Open', interface='org.sim.Fd', destination='org.sim.svc')
            dcan.addErrback(lambda f: None)
            cancelled_serial = rig.sent[-1].serial
            rig.call(dcan.cancel)
    elif ds.flag(0.3):
        # the receiver is the accepting side and the peer pipelines its handshake with its first
        # messages: descriptors may arrive in the read that still holds the BEGIN line
        sim.probe('receiver-accepts-pipelined-handshake')
        from checks.c04 import _Factory
        proto = Rec()
        proto._client = False
        proto.authenticator = authentication.BusAuthenticator
        proto.factory = _Factory()
        node = Node('rx', serial_start=5)
        peer = DumbPeer('tx')
        ctx.seams.set_linux(False)       # no peer-credential lookup on this side
        conn = net.Connection(sim, 'c', node, None, unix=True)
        conn.attach(proto, peer)
        tx = conn.b
        pipe = conn.pipes[1]
        tx.write(b'\0AUTH ANONYMOUS\r\n')
        tx.write(b'NEGOTIATE_UNIX_FD\r\nBEGIN\r\n')
        pipelined = True
    else:
        proto = Rec()
        node = Node('rx', serial_start=5)
        peer = DumbPeer('tx')
        conn = net.Connection(sim, 'c', node, None, unix=True)
        conn.attach(proto, peer)
        tx = conn.b
        pipe = conn.pipes[1]
        tx.write(b'OK 0123456789abcdef\r\nAGREE_UNIX_FD\r\n')
        net.deliver(sim, pipe, len(pipe.buf))
        net.deliver(sim, conn.pipes[0], len(conn.pipes[0].buf))
    if not pipelined and not getattr(proto, '_authenticated', True):
        raise Violation('C20/harness', 'handshake', 'receiver not authenticated')
    n = 1 + ds.choose(12 * (3 if ctx.tier == 'thorough' else 1))
    msgs = []
    next_fd = 1000
    prev_pos = 0
    counts = []
    # one message may be of a type the receiver does not know (declaring and carrying its
    # descriptors like any other): the receiver may drop the connection there or skip the
    # message, but must never hand its descriptors to a later message
    bad_at = ds.choose(n) if n >= 2 and ds.flag(0.2) else None
    if bad_at is None and not client_rx and n >= 2 and ds.flag(0.15):
        raise_at[0] = ds.choose(n)
        sim.probe('handler-raises')
    for i in range(n):
        nfd = ds.weighted([3, 4, 2, 1.5, 0.8])
        if nfd >= 3:
            sim.probe('three-descriptors')
        counts.append(nfd)
        sig, body, idxs = fd_signature(ds, nfd) if nfd else (gen.signature(ds, 2), None, [])
        if not nfd:
            body = gen.body(ds, sig)
        if idxs != sorted(idxs):
            sim.probe('index-out-of-order')
        mt = ds.pick([1, 4, 2])
        if i == 0 and cancelled_serial is not None:
            mt = 2
        f = {}
        if mt in (1, 4):
            f[rc.F_PATH] = '/fd'
            f[rc.F_MEMBER] = 'Pass'
            f[rc.F_INTERFACE] = 'org.sim.Fd'
        else:
            f[rc.F_REPLY_SERIAL] = cancelled_serial if (i == 0 and cancelled_serial is not None) else 77
        if nfd:
            f[rc.F_UNIX_FDS] = nfd
        m = rc.Msg(mt, 100 + i, f, sig, body, little=not ds.flag(0.2))
        m.encode()
        if i == bad_at:
            raw = bytearray(m.raw)
            raw[1] = ds.pick([0, 5, 9, 200])
            m.raw = bytes(raw)
            sim.probe('undecodable-message-with-descriptors' if nfd else 'undecodable-message')
            sim.fault('corrupt')
        start = pipe.total
        tx.write(m.raw)
        end = pipe.total
        fds = list(range(next_fd, next_fd + nfd))
        next_fd += nfd
        pos = max(prev_pos, start)
        for k, fd in enumerate(fds):
            how = ds.weighted([2, 3, 1, 1])
            if how == 0:
                p = start + min(k, end - start - 1)        # Twisted: one per byte from the start
            elif how == 1:
                p = pos + ds.choose(end - pos)
            elif how == 2:
                p = end - 1
                sim.probe('fd-with-last-byte')
            else:
                p = pos
            p = max(p, pos)
            if p == start:
                sim.probe('fd-with-first-byte')
            pipe.fds.append((p, fd))
            pos = p
        prev_pos = pos
        msgs.append((m, fds, start, end))
    sizew = [[3, 2, 1, 3, 2, 2, 1, 2], [1, 0, 0, 0, 0, 0, 0, 0], [0, 0, 1, 0, 0, 0, 0, 0],
             [1, 3, 0.3, 3, 3, 3, 2, 1]][ds.weighted([5, 1, 1, 2])]
    max_ahead = 0
    dropped = False
    while pipe.buf and proto.transport.state == net.OPEN:
        nbytes, bc = net.chunk_size(ds, pipe, sizew)
        if bc != 'all':
            sim.nontrivial = True
            sim.faults['split'] += 1
        # probes: descriptors of later messages queued before an earlier one completes
        endpos = pipe.base + nbytes
        done = len(record)
        if done < len(msgs):
            cur_end = msgs[done][3]
            ahead = [j for j in range(done + 1, len(msgs)) if msgs[j][1] and
                     any(p < endpos for p, fd in pipe.fds if fd in msgs[j][1])]
            if ahead and endpos >= msgs[ahead[0]][2]:
                sim.probe('fd-of-next-message-queued-early')
                sim.faults['fd-early'] += 1
                if len(ahead) > 1:
                    sim.probe('fds-of-two-later-messages-queued')
                max_ahead = max(max_ahead, len(ahead))
            if endpos > cur_end:
                sim.probe('read-spans-messages')
        if ds.flag(0.02):
            # a slow or backlogged peer: time passes between two reads (descriptors may have
            # arrived long before the last byte of their message)
            sim.probe('minutes-between-reads')
            sim.advance(ds.pick([59.0, 61.0, 600.0]))
        sim.sched('d', bc)
        err = net.deliver(sim, pipe, nbytes)
        sim.step += 1
        if err is not None:
            if raise_at[0] is not None and len(record) == raise_at[0] + 1:
                dropped = True
                break
            if bad_at is not None and len(record) == bad_at and pipe.base >= msgs[bad_at][3]:
                # the undecodable message cost the connection: nothing after it is delivered
                dropped = True
                break
            raise Violation('C20/exception', exc_key(err), 'exception in dataReceived: %r' % (err,))
    if dropped and raise_at[0] is not None:
        msgs = msgs[:raise_at[0] + 1]
    elif dropped:
        sim.probe('dropped-at-undecodable-message')
        if len(record) != bad_at:
            raise Violation('C20/count', 'after drop', '%d messages delivered, %d preceded the '
                            'undecodable one' % (len(record), bad_at))
        msgs = msgs[:bad_at]
    elif bad_at is not None:
        msgs = msgs[:bad_at] + msgs[bad_at + 1:]
    if client_rx and len(record) < len(msgs):
        # a client connection may discard replies nobody waits for (their descriptors consumed all
        # the same); everything else must arrive, in order
        got_serials = [getattr(r, 'serial', None) for r in record]
        kept = [x for x in msgs if x[0].mtype != 2 or x[0].serial in got_serials]
        if len(kept) == len(record):
            sim.probe('client-discarded-unsolicited-reply')
            msgs = kept
    if len(record) != len(msgs):
        raise Violation('C20/count', 'messages', '%d of %d messages delivered' % (len(record), len(msgs)))
    prev_fd = False
    for i, ((m, fds, _, _), got) in enumerate(zip(msgs, record)):
        if not fds:
            if prev_fd and i + 1 < len(msgs) and msgs[i + 1][1]:
                sim.probe('plain-message-between-fd-messages')
            if m.sig and rc.canon(got.body) != rc.canon(rc.plain_body(m.sig, m.body)):
                raise Violation('C20/plain-body', 'body', 'plain message %d body differs' % i)
            continue
        prev_fd = True
        pairs = find_h(m.sig, m.body, got.body)
        for idx, val in pairs:
            if val != fds[idx]:
                whose = [j for j, (_, f2, _, _) in enumerate(msgs) if val in f2]
                raise Violation('C20/attribution',
                                'descriptor of message %+d' % ((whose[0] - i) if whose else 0)
                                if whose else 'no descriptor',
                                'message %d argument with index %d resolved to %r; its descriptors '
                                'are %r (descriptor belongs to message %r)' % (i, idx, val, fds, whose))
    left = getattr(proto, '_receivedFDs', None)
    if left and not dropped:
        raise Violation('C20/consumed', 'left over', 'descriptors left queued at the end: %r' % (left,))
    sim.state((tuple(counts[:6]), max_ahead))


def send_side(ctx):
    ds, sim = ctx.ds, ctx.sim
    sim.probe('send-side')
    rig = ClientRig(ctx, unix=True)
    cl = rig.proto
    events = []
    rig.conn.a.fd_taps.append(lambda fd: events.append(('fd', fd)))
    rig.conn.a.taps.append(lambda data: events.append(('w', len(data))))
    ncalls = 1 + ds.choose(4)
    next_fd = 500
    for c in range(ncalls):
        nfd = ds.weighted([2, 4, 2, 1])
        parts, body, fds = [], [], []
        for k in range(nfd):
            if ds.flag(0.3):
                parts.append('s')
                body.append('x')
            # the same descriptor may be named by several arguments (a pty as stdin, stdout and
            # stderr): every argument position travels
            fd = next_fd
            if fds and ds.flag(0.25):
                fd = fds[-1]
                sim.probe('same-descriptor-in-two-arguments')
            else:
                next_fd += 1
            if ds.flag(0.2) and nfd - k >= 1:
                parts.append('ah')
                body.append([fd])
            elif ds.flag(0.25) and nfd - k >= 1:
                parts.append('(ih)')
                body.append((1, fd))
            else:
                parts.append('h')
                body.append(fd)
            fds.append(fd)
        if ds.flag(0.3):
            parts.append('i')
            body.append(5)
        sig = ''.join(parts)
        del events[:]
        nsent = len(rig.sent)
        d = rig.call(cl.callRemote, '/fd', 'Pass', interface='org.sim.Fd', destination='org.sim.svc',
                     signature=sig or None, body=body or None)
        d.addErrback(lambda f: None)
        if len(rig.sent) != nsent + 1:
            raise Violation('C20/send', 'not written', 'callRemote(%r) wrote %d messages'
                            % (sig, len(rig.sent) - nsent))
        m = rig.sent[-1]
        got_fds = [e[1] for e in events if e[0] == 'fd']
        kinds = [e[0] for e in events]
        if got_fds != fds:
            raise Violation('C20/send-order', 'descriptors', 'sendFileDescriptor called with %r, '
                            'arguments carry %r' % (got_fds, fds))
        if 'w' in kinds and 'fd' in kinds[kinds.index('w'):]:
            raise Violation('C20/send-order', 'after write', 'descriptor sent after the message bytes')
        if kinds.count('w') != 1:
            raise Violation('C20/send', 'writes', '%d writes for one message' % kinds.count('w'))
        decl = m.fields.get(rc.F_UNIX_FDS)
        if (decl or 0) != len(fds):
            raise Violation('C20/send-count', 'header', 'unix_fds header %r, %d descriptors sent'
                            % (decl, len(fds)))
        # indices in the body are 0..n-1 in argument order
        hv = []

        def walk(t, v):
            if t[0] == 'h':
                hv.append(v)
            elif t[0] == '(':
                for st, x in zip(rc.split_sig(t[1:-1]), v):
                    walk(st, x)
            elif t[0] == 'a' and t[1] != '{':
                for x in v:
                    walk(t[1:], x)
        for t, v in zip(rc.split_sig(m.sig), m.body):
            walk(t, v)
        if hv != list(range(len(fds))):
            raise Violation('C20/send-index', 'indices', 'h arguments encoded as %r' % (hv,))
        sim.state(('send', len(fds)))
        if fds and ds.flag(0.3):
            # a prepared message transmitted more than once (the same request on this connection
            # again after it was answered, or on a second connection): every transmission
            # carries the descriptors
            from txdbus import message as t_message
            sim.probe('prepared-message-sent-twice')
            other = ClientRig(ctx, name='c2', unix=True, bus_name=':1.43', node=rig.node) if ds.flag(0.5) else None
            if other is not None:
                other.conn.a.fd_taps.append(lambda fd: events.append(('fd2', fd)))
                other.conn.a.taps.append(lambda data: events.append(('w2', len(data))))
            mc = rig.call(lambda: t_message.MethodCallMessage(
                '/fd', 'Pass', interface='org.sim.Fd', destination='org.sim.svc', signature=sig,
                body=body, oobFDs=[]))
            for attempt in range(2):
                del events[:]
                target = other if (other is not None and attempt == 1) else rig
                d2 = target.call(target.proto.callRemoteMessage, mc)
                d2.addErrback(lambda f: None)
                tag = '2' if target is other else ''
                got2 = [e[1] for e in events if e[0] == 'fd' + tag]
                if got2 != fds:
                    raise Violation('C20/send-order', 'descriptors of a retransmission',
                                    'transmission %d of a prepared message: sendFileDescriptor called '
                                    'with %r, arguments carry %r' % (attempt + 1, got2, fds))
                # the call is answered before the message is used again
                target.daemon.method_return(mc.serial, dest=target.bus_name)
                target.calm()
    check_no_exceptions(sim, 'C20')


def scenario(ctx):
    if ctx.ds.weighted([6, 1]) == 0:
        recv_side(ctx)
    else:
        send_side(ctx)
