"""
C17 - remote property access honours declared type and access mode.

System: real DBusClientConnection exporting objects of generated classes whose interfaces
declare properties over (signature x read/write/readwrite x change-notification mode), the
same property name on two interfaces, inherited classes.  Local assignments are interleaved
with remote Get / Set / GetAll from two callers under the seeded scheduler.
Oracle: register model per (object, interface, property) advanced at the exporter's
processing instants; PropertiesChanged count and content read off the wire.
"""
from simdbus import gen, net, objgen, refcodec as rc
from simdbus.harness import ClientRig, check_no_exceptions, check_no_logged_errors, exc_key
from simdbus.kernel import Violation
from simdbus.refcodec import V
from simdbus.sched import Scheduler

PROPERTY = 'C17'
LEVEL = 'exploration'
QUICK_RUNS = 16000
QUICK_BUDGET_S = 60
THOROUGH_BUDGET_S = 600
RULE = ('generated property declarations (16 signatures x 3 access modes x 3 notification '
        'modes, same name on two interfaces, inheritance) x histories of 3-25 local '
        'assignments and remote Get/Set/GetAll (right and wrong interface / property names, '
        'empty interface name) from two callers, in flight concurrently, seeded interleaving')
STATE_MEASURE = 'distinct (operation, access mode, notification mode, outcome) tuples'
PROBES = ['get-readable', 'get-write-only-refused', 'set-writable', 'set-read-only-refused',
          'unknown-property', 'unknown-interface', 'getall', 'local-assign-emits',
          'local-assign-silent', 'remote-set-emits', 'same-name-two-interfaces',
          'inherited-property', 'empty-interface-name', 'get-after-remote-set',
          'two-instances-of-one-class', 'exported-on-an-older-connection-first',
          'properties-declared-on-abstract-class', 'own-interface-has-get-set-getall', 'unencodable-assignment-then-valid-one', 'wrapper-of-another-type-assigned', 'property-holds-an-unencodable-value', 'set-without-reply', 'misdeclared-sibling-rejected-first']
COMPONENTS = {
    'real': ['txdbus.objects.DBusProperty / DBusObject (_dbus_PropertyGet/Set/GetAll, '
             'getAllProperties, emitSignal)', 'DBusObjectHandler dispatch',
             'txdbus.marshal variant inference', 'txdbus.client.DBusClientConnection'],
    'stub': ['transport', 'daemon / remote callers (reference codec)', 'exported classes (generated)'],
}
ASSUMPTIONS = ['container-typed properties hold non-empty values (txdbus infers variant types from '
               'the first element; the statement promises the exact type for basic types only)']
PROPS_IFACE = 'org.freedesktop.DBus.Properties'


GARBAGE = object()


def scenario(ctx):
    ds, sim = ctx.ds, ctx.sim
    rig = ClientRig(ctx, unix=ds.flag(0.2))
    cl = rig.proto
    daemon = rig.daemon
    # fail-over: the objects were first exported on an older connection of the same process,
    # then on this one; the older connection goes away at some point of the run
    rig0 = ClientRig(ctx, name='c0', bus_name=':1.41', node=rig.node) if ds.flag(0.25) else None
    first_lost = [rig0 is None]
    sched = Scheduler(ctx)

    def hook(obj, mspec, args, caller):
        # members of an object's own key-value store interface that happen to be called like the
        # members of org.freedesktop.DBus.Properties
        if mspec.name == 'Get':
            return 'store:' + args[0]
        if mspec.name == 'GetAll':
            return ['store']
        return None

    objs = {}         # path -> dict(obj, cs, reg {(iface, prop): [sig, ref, acc, emits]})
    paths = ['/p0', '/p1'][:1 + ds.choose(2)]

    def build():
        for i, p in enumerate(paths):
            base = None
            if ds.flag(0.4):
                base = objgen.class_spec(ds, 'PB%d' % i, n_ifaces=1, rich=False, props=True)
            cs = objgen.class_spec(ds, 'P%d' % i, with_base=base, rich=False, props=True)
            # the same property name on two interfaces
            allifs = cs.all_ifaces()
            if len(allifs) >= 2 and allifs[0].props and ds.flag(0.6):
                pn, ps, acc, em = allifs[0].props[0]
                if not any(x[0] == pn for x in allifs[1].props):
                    allifs[1].props.append((pn, ds.pick(gen.PROP_SIGS), ds.pick(['read', 'readwrite', 'write']),
                                            ds.pick(['true', 'false'])))
            if not any(d.props for d in allifs):
                allifs[0].props.append(('Level', 'i', 'readwrite', 'true'))
            if ds.flag(0.3) and not cs.ifaces[0].method('Get'):
                # the object's own interface is a small key-value store: Get / Set / GetAll
                for mn, si, so in (('Get', 's', 's'), ('Set', 'ss', ''), ('GetAll', '', 'as')):
                    cs.ifaces[0].methods.append((mn, si, so))
                    cs.methods[(cs.ifaces[0].name, mn)] = objgen.MSpec(cs.ifaces[0].name, mn, si, so,
                                                                       'deco', False)
                cs.store_iface = cs.ifaces[0].name
                sim.probe('own-interface-has-get-set-getall')
            if i == 1 and ds.flag(0.5):
                # the second object is another instance of the first object's class
                cs = objs[paths[0]]['cs']
                klass = type(objs[paths[0]]['obj'])
                allifs = cs.all_ifaces()
                sim.probe('two-instances-of-one-class')
            else:
                txi = objgen.build_tx_ifaces(cs)
                cs.abstract_props = ds.flag(0.2)
                klass = objgen.build_class(cs, hook, txi)
                if cs.abs_klass is not None:
                    sim.probe('properties-declared-on-abstract-class')
                    if ds.flag(0.6):
                        # a sibling class that forgot its dbusInterfaces is tried first and
                        # rejected; the correctly declared class must be unaffected
                        broken = type('Broken' + cs.name, (cs.abs_klass,), {})
                        try:
                            cl.exportObject(broken('/broken%d' % i))
                        except Exception as e:
                            sim.log('broken-sibling-rejected', type(e).__name__)
                            sim.probe('misdeclared-sibling-rejected-first')
            o = klass(p)
            reg = {}
            for d in allifs:
                for pn, ps, acc, em in d.props:
                    ref, pyv = gen.prop_value(ds, ps)
                    try:
                        setattr(o, cs.attr(d.name, pn), pyv)
                    except Exception as e:
                        raise Violation('C17/assign-raised', exc_key(e),
                                        'assigning property %s.%s (declared %r) raised %r'
                                        % (d.name, pn, ps, e))
                    reg[(d.name, pn)] = [ps, ref, acc, em]
            objs[p] = {'obj': o, 'cs': cs, 'reg': reg}
            if rig0 is not None:
                rig0.proto.exportObject(o)
                sim.probe('exported-on-an-older-connection-first')
            cl.exportObject(o)
    rig.call(build)
    rig.calm()

    nseen = [len(rig.sent)]
    replies = {}
    queries = []
    pipe_dc = rig.conn.pipes[1]
    budget = [3 + ds.choose(23 * (3 if ctx.tier == 'thorough' else 1))]
    pending_changes = []     # expected PropertiesChanged not yet seen on the wire

    def drain_sent():
        new = rig.sent[nseen[0]:]
        nseen[0] = len(rig.sent)
        sigs = []
        for m in new:
            if m.mtype == rc.SIGNAL and m.fields.get(rc.F_MEMBER) == 'PropertiesChanged':
                sigs.append(m)
            elif m.mtype in (rc.METHOD_RETURN, rc.ERROR):
                replies.setdefault(m.fields.get(rc.F_REPLY_SERIAL), []).append(m)
        return sigs

    def check_changed(sigs, path, want):
        """want: list of (iface, prop, sig, ref)"""
        if len(sigs) != len(want):
            raise Violation('C17/properties-changed-count',
                            '%d signals, expected %d' % (len(sigs), len(want)),
                            'assignment on %s wrote %d PropertiesChanged signals, expected %d (%r)'
                            % (path, len(sigs), len(want), [(w[0], w[1]) for w in want]))
        for s, (iname, pn, ps, ref) in zip(sigs, want):
            body = rc.plain_body(s.sig, s.body)
            ok = (s.fields.get(rc.F_PATH) == path and s.fields.get(rc.F_INTERFACE) == PROPS_IFACE
                  and len(body) == 3 and body[0] == iname and list(body[1]) == [pn]
                  and rc.canon(body[1][pn]) == rc.canon(rc.plain(ps, ref)) and body[2] == [])
            if not ok:
                raise Violation('C17/properties-changed-content', 'content',
                                'PropertiesChanged %r on %s; expected interface %s property %s '
                                'value %r' % (body, s.fields.get(rc.F_PATH), iname, pn, ref))

    def all_props(rec):
        return sorted(rec['reg'])

    def op_assign():
        p = ds.pick(paths)
        rec = objs[p]
        keys = all_props(rec)
        k = keys[ds.choose(len(keys))]
        ps, _, acc, em = rec['reg'][k]
        ref, pyv = gen.prop_value(ds, ps)
        drain_sent()
        if em != 'true' and acc != 'write' and (len(ps) > 1 or ps == 'v') and ds.flag(0.08):
            # the application leaves something in a container-typed property that cannot be
            # encoded (None: reset, not yet known): whoever asks for it gets an error reply - a
            # reply - until a proper value is assigned again
            sim.probe('property-holds-an-unencodable-value')
            sim.log('op', 'assign-garbage', p, k[0], k[1])
            rig.call(setattr, rec['obj'], rec['cs'].attr(*k), None)
            rec['reg'][k][1] = GARBAGE
            check_changed(drain_sent(), p, [])
            return
        if em == 'true' and ps in 'nqiuxtyd' and ds.flag(0.12):
            # first a value that cannot be announced as the declared type: the assignment fails;
            # the valid one that follows is announced like any other
            sim.probe('unencodable-assignment-then-valid-one')
            try:
                rig.call(setattr, rec['obj'], rec['cs'].attr(*k), ds.pick(['not a number', None, [1]]))
            except Exception as e:
                sim.log('assign-refused', type(e).__name__)
            drain_sent()
        if ps in 'nqiuxt' and isinstance(pyv, int) and ds.flag(0.15):
            # the application hands over a marshal wrapper of ANOTHER integer type (taken from a
            # received structure, say): the property keeps its declared type
            from txdbus import marshal as tm
            other = [c for c, (lo, hi) in (('n', (-2**15, 2**15 - 1)), ('q', (0, 2**16 - 1)),
                                           ('i', (-2**31, 2**31 - 1)), ('u', (0, 2**32 - 1)),
                                           ('x', (-2**63, 2**63 - 1)), ('t', (0, 2**64 - 1)))
                     if c != ps and lo <= int(pyv) <= hi and c in tm.variantClassMap]
            if other:
                pyv = tm.variantClassMap[ds.pick(other)](int(pyv))
                sim.probe('wrapper-of-another-type-assigned')
        sim.log('op', 'assign', p, k[0], k[1])
        try:
            rig.call(setattr, rec['obj'], rec['cs'].attr(*k), pyv)
        except Exception as e:
            raise Violation('C17/assign-raised', exc_key(e),
                            'assigning property %s.%s raised %r' % (k[0], k[1], e))
        rec['reg'][k][1] = ref
        sigs = drain_sent()
        if em == 'true':
            sim.probe('local-assign-emits')
            check_changed(sigs, p, [(k[0], k[1], ps, ref)])
        else:
            sim.probe('local-assign-silent')
            check_changed(sigs, p, [])
        sim.state(('assign', acc, em, 'ok'))

    def op_remote():
        p = ds.pick(paths)
        rec = objs[p]
        store = getattr(rec['cs'], 'store_iface', None)
        if store and ds.flag(0.3):
            # a call to the store member of the same name
            mn = ds.pick(['Get', 'Set', 'GetAll'])
            sig, body, want = {'Get': ('s', ['k1'], ['store:k1']), 'Set': ('ss', ['k1', 'v'], []),
                               'GetAll': ('', [], [['store']])}[mn]
            m = daemon.call(p, mn, store, sig, body, sender=ds.pick([':1.60', ':1.61']), dest=rig.bus_name)
            q = {'path': p, 'iface': store, 'prop': mn, 'key': None, 'variant': 0, 'kind': 'store',
                 'want': want, 'serial': m.serial, 'end': pipe_dc.total}
            queries.append(q)
            sim.log('op', 'store', p, mn)
            return
        keys = all_props(rec)
        k = keys[ds.choose(len(keys))]
        ps = rec['reg'][k][0]
        iname, pn = k
        kind = ds.weighted([4, 4, 2])
        variant = ds.weighted([6, 1, 1, 1])
        if variant == 1:
            pn = 'NoSuchProp'
        elif variant == 2:
            iname = 'org.sim.NoSuchIface'
        elif variant == 3 and kind != 2:
            # empty interface name: only where the property name is unique on the object
            if sum(1 for kk in keys if kk[1] == pn) == 1:
                iname = ''
        sender = ds.pick([':1.60', ':1.61'])
        q = {'path': p, 'iface': iname, 'prop': pn, 'key': k, 'variant': variant}
        if kind == 0:
            q['kind'] = 'get'
            m = daemon.call(p, 'Get', PROPS_IFACE, 'ss', [iname, pn], sender=sender,
                            dest=rig.bus_name)
        elif kind == 1:
            q['kind'] = 'set'
            if variant in (1, 2):
                ps = 'i'
            ref, _ = gen.prop_value(ds, ps)
            q['value'] = (ps, ref)
            # (what dbus-send does unless --print-reply is given: no reply wanted)
            q['noreply'] = ds.flag(0.15)
            if q['noreply']:
                sim.probe('set-without-reply')
            m = daemon.call(p, 'Set', PROPS_IFACE, 'ssv', [iname, pn, V(ps, ref)], sender=sender,
                            dest=rig.bus_name, flags=1 if q['noreply'] else 0)
        else:
            q['kind'] = 'getall'
            m = daemon.call(p, 'GetAll', PROPS_IFACE, 's', [iname], sender=sender,
                            dest=rig.bus_name)
        q['serial'] = m.serial
        q['end'] = pipe_dc.total
        queries.append(q)
        sim.log('op', q['kind'], p, iname, pn)

    def extra():
        ops = []
        if budget[0] > 0 and rig.conn.a.state == net.OPEN:
            def op():
                budget[0] -= 1
                (op_assign if ds.flag(0.35) else op_remote)()
            ops.append(('op', op))
        faults = []
        if not first_lost[0]:
            def lose_first():
                first_lost[0] = True
                sim.fault('close')
                how = ds.choose(3)
                sim.log('fault', 'older-connection-lost', how)
                if how == 0:
                    rig0.call(rig0.proto.disconnect)
                elif how == 1:
                    rig0.daemon.transport.loseConnection()
                else:
                    rig0.conn.reset()
            faults.append(('lose-first', lose_first))
        return {'op': ops, 'fault': faults}

    def process(q):
        """the query's last byte was delivered in this step: apply it to the model; the
        exporter has already processed it synchronously, so its reply and any signal are in
        rig.sent"""
        rec = objs[q['path']]
        iname, pn = q['iface'], q['prop']
        if q['kind'] == 'store':
            q['exp'] = ('store', q['want'])
            return
        if q['kind'] == 'getall':
            sim.probe('getall')
            if q['variant'] == 2:
                q['exp'] = ('getall', {})      # unknown interface: empty or error (either)
                q['either_error'] = True
            elif any(v[1] is GARBAGE for k, v in rec['reg'].items() if k[0] == iname and v[2] != 'write'):
                q['exp'] = ('error',)
            else:
                q['exp'] = ('getall', {k[1]: (v[0], v[1]) for k, v in rec['reg'].items()
                                       if k[0] == iname and v[2] != 'write'})
            return
        if iname == '':
            sim.probe('empty-interface-name')
            key = q['key']
        else:
            key = (iname, pn)
        if key not in rec['reg']:
            sim.probe('unknown-property' if q['variant'] == 1 else 'unknown-interface')
            q['exp'] = ('error',)
            return
        ps, ref, acc, em = rec['reg'][key]
        if sum(1 for kk in rec['reg'] if kk[1] == key[1]) > 1:
            sim.probe('same-name-two-interfaces')
        if rec['cs'].base and rec['cs'].base.iface(key[0]):
            sim.probe('inherited-property')
        if q['kind'] == 'get':
            if acc == 'write':
                sim.probe('get-write-only-refused')
                q['exp'] = ('error',)
            else:
                sim.probe('get-readable')
                if rec.get('remote_set') == key:
                    sim.probe('get-after-remote-set')
                q['exp'] = ('value', ps, ref) if ref is not GARBAGE else ('error',)
            sim.state(('get', acc, em, q['exp'][0]))
        else:
            if acc == 'read':
                sim.probe('set-read-only-refused')
                q['exp'] = ('error',)
                q['changed'] = []
            else:
                sim.probe('set-writable')
                vs, vref = q['value']
                rec['reg'][key][1] = vref
                rec['remote_set'] = key
                q['exp'] = ('ok',)
                q['changed'] = [(key[0], key[1], vs, vref)] if em == 'true' else []
                if em == 'true':
                    sim.probe('remote-set-emits')
            sim.state(('set', acc, em, q['exp'][0]))

    def invariant():
        check_no_exceptions(sim, 'C17')
        rig.check_wire('C17')
        newq = [q for q in queries if 'exp' not in q and q['end'] <= pipe_dc.base]
        sigs = drain_sent()
        want_sigs = []
        for q in newq:
            process(q)
            if q['kind'] == 'set':
                want_sigs += [(q['path'],) + c for c in q.get('changed', [])]
        if newq or sigs:
            # signals written in this step are exactly those of the successful Sets, in order
            if len(sigs) != len(want_sigs):
                raise Violation('C17/properties-changed-count',
                                'remote: %d signals, expected %d' % (len(sigs), len(want_sigs)),
                                'remote Set step wrote %d PropertiesChanged, expected %d'
                                % (len(sigs), len(want_sigs)))
            for s, w in zip(sigs, want_sigs):
                check_changed([s], w[0], [w[1:]])
        for q in queries:
            if 'exp' in q and not q.get('judged') and q['serial'] in replies:
                judge(q, replies[q['serial']])
                q['judged'] = True

    def judge(q, rs):
        if len(rs) != 1:
            raise Violation('C17/reply-count', q['kind'], '%d replies' % len(rs))
        r = rs[0]
        exp = q['exp']
        what = '%s(%s, %s) on %s' % (q['kind'], q['iface'], q['prop'], q['path'])
        if exp[0] == 'store':
            if r.mtype != rc.METHOD_RETURN or rc.canon(rc.plain_body(r.sig, r.body)) != rc.canon(exp[1]):
                raise Violation('C17/store-call', q['prop'],
                                'call to the object\'s own %s.%s answered %r, its implementation returns %r'
                                % (q['iface'], q['prop'], r.describe(), exp[1]))
            return
        if exp[0] == 'error':
            if r.mtype != rc.ERROR:
                raise Violation('C17/should-fail', q['kind'],
                                '%s must fail but answered %r' % (what, r.describe()))
            return
        if exp[0] == 'ok':
            if r.mtype != rc.METHOD_RETURN:
                raise Violation('C17/set-failed', 'error', '%s answered %r' % (what, r.describe()))
            return
        if exp[0] == 'value':
            _, ps, ref = exp
            if r.mtype != rc.METHOD_RETURN or r.sig != 'v':
                raise Violation('C17/get-failed', 'reply', '%s answered %r' % (what, r.describe()))
            var = r.body[0]
            if len(ps) == 1 and var.sig != ps:
                raise Violation('C17/get-type', '%s as %s' % (ps, var.sig),
                                '%s returned a variant of type %r, declared type is %r'
                                % (what, var.sig, ps))
            if rc.canon(rc.plain(var.sig, var.value)) != rc.canon(rc.plain(ps, ref)):
                raise Violation('C17/get-value', 'stale or wrong value',
                                '%s returned %r, latest assignment was %r' % (what, var, ref))
            return
        # getall
        if r.mtype == rc.ERROR and q.get('either_error'):
            return
        if r.mtype != rc.METHOD_RETURN:
            raise Violation('C17/getall-failed', 'error', '%s answered %r' % (what, r.describe()))
        body = rc.plain_body(r.sig, r.body)[0]
        want = exp[1]
        if set(body) != set(want):
            raise Violation('C17/getall-names', 'names',
                            '%s returned properties %r, readable properties of the interface are %r'
                            % (what, sorted(body), sorted(want)))
        raw = dict(r.body[0])
        for pn, (ps, ref) in want.items():
            if len(ps) == 1 and raw[pn].sig != ps:
                raise Violation('C17/get-type', 'getall %s as %s' % (ps, raw[pn].sig),
                                '%s: %s has variant type %r, declared %r' % (what, pn, raw[pn].sig, ps))
            if rc.canon(body[pn]) != rc.canon(rc.plain(ps, ref)):
                raise Violation('C17/get-value', 'getall value', '%s: %s = %r, assigned %r'
                                % (what, pn, body[pn], ref))

    sched.run(500 * (3 if ctx.tier == 'thorough' else 1), extra, invariant)
    budget[0] = 0
    ok = sched.drain(500 * (3 if ctx.tier == 'thorough' else 1), None, invariant)
    if not ok:
        raise Violation('C17/liveness', 'no quiescence', 'drain did not reach quiescence')
    if rig.conn.a.state == net.OPEN:
        for q in queries:
            if not q.get('judged') and not q.get('noreply'):
                raise Violation('C17/no-reply', q['kind'], '%s on %s got no reply'
                                % (q['kind'], q['path']))
    check_no_logged_errors(ctx, 'C17')
