"""
C14 - the built-in bus delivers each message to the right peer with the true sender.

System: the real Bus with up to 4 peers (reference peers speaking the reference codec, and
real DBusClientConnections).  Workload: connects, disconnects (close / reset), name
acquisition and release, unicast messages of all four types to unique and well-known names
with true, absent or forged sender fields and any flags, calls addressed to the bus, AddMatch
with rules over the C12 key set, broadcast signals; several senders concurrently.
Oracle: for every message the bus processes (journal of its processing instants) the set of
copies it writes is compared with an expected-delivery model (DESIGN.md A.7): exactly one
copy at the owner of the destination at that instant, unchanged except for the sender;
bus-addressed calls answered and not forwarded; broadcasts at exactly the rule holders
(independent matcher + rule-text parser); per sender/destination order; unique names never
reused.
"""
from simdbus import gen, matchref, net, refcodec as rc
from simdbus.harness import BusRig, Obs, check_no_exceptions
from simdbus.kernel import Violation
from simdbus.sched import Scheduler

from checks.c12 import gen_rule, PATHS, IFACES, MEMBERS, ARGVALS

PROPERTY = 'C14'
LEVEL = 'exploration'
QUICK_RUNS = 12000
QUICK_BUDGET_S = 60
THOROUGH_BUDGET_S = 1200
RULE = ('histories of 3-30 operations among up to 4 (+ newly connecting) peers: unicast '
        'messages of the 4 types to unique / well-known / unowned / vanished names with '
        'true/absent/forged sender and all flag values, calls to the bus, AddMatch, broadcast '
        'signals, RequestName/ReleaseName, close/reset; seeded delivery order and splitting')
STATE_MEASURE = 'distinct (message kind, destination kind, sender-field kind, #copies) tuples'
PROBES = ['forged-sender', 'unicast-to-well-known-name', 'unicast-to-unique-name',
          'unicast-to-unowned-name', 'unicast-to-vanished-peer', 'unicast-while-rule-holder-matches',
          'broadcast-to-two-holders', 'broadcast-no-holder', 'destination-also-holds-rule',
          'bus-call-while-rule-holder-matches', 'no-reply-flag-forwarded', 'big-endian-forwarded',
          'variant-in-forwarded-body', 'real-client-sender', 'new-peer-mid-run',
          'name-owner-changed-mid-run', 'sender-holds-matching-rule', 'bus-drained-then-reconnect', 'name-taken-over', 'traffic-before-hello', 'call-before-hello-gets-the-connection-dropped',
          'reply-without-destination']
COMPONENTS = {
    'real': ['txdbus.bus.Bus (messageReceived, sendMessage, dbus_AddMatch, clientConnected/'
             'Disconnected)', 'txdbus.bus.BusProtocol (tracing subclass on rawDBusMessageReceived / '
             'connectionLost)', 'txdbus.router.MessageRouter', 'txdbus.message re-marshalling',
             'real DBusClientConnection peers'],
    'stub': ['transports', 'reference peers (reference codec)', 'independent matcher / rule parser'],
}
ASSUMPTIONS = ['whether the sender of an undeliverable unicast message gets an error is not stated '
               'and not judged', 'a connection holding several matching rules may receive a '
               'broadcast once or once per rule', 'AddMatch that the bus answers with an error '
               'registers no rule', 'names are requested with DO_NOT_QUEUE so ownership is a '
               'function of the reply codes (queues are C13 territory)']
NAMES = ['org.sim.alpha', 'org.sim.beta']
BUS = 'org.freedesktop.DBus'


def fmt_rule(spec):
    d = matchref.rule_dict(**spec)
    return ','.join("%s='%s'" % (k, v.replace("'", "'\\''")) for k, v in d.items())


def scenario(ctx):
    ds, sim = ctx.ds, ctx.sim
    rig = BusRig(ctx, creds=ds.flag(0.5), prop='C14')
    sched = Scheduler(ctx)
    peers = {}           # name -> rec
    order = []
    uniques = {}         # rec name -> unique name (every one ever handed out)

    # model state
    connected = {}       # rec name -> unique name
    owners = {}          # well-known name -> rec name
    rules = {}           # rec name -> [rule dict]
    vanished = []

    def connect(kind=None):
        kind = kind or ds.pickw([('ref', 3), ('real', 1.5), ('ref-nohello', 0.6)])
        if kind == 'ref-nohello':
            # a connection that sends other traffic before (or without ever) saying Hello: its
            # messages carry its unique name all the same
            rec = rig.add_peer(unix=ds.flag(0.3), hello=False)
            rec['nohello'] = True
            sim.probe('traffic-before-hello')
        else:
            rec = rig.add_peer(unix=ds.flag(0.3)) if kind == 'ref' else rig.add_client()
        peers[rec['name']] = rec
        order.append(rec['name'])
        u = rig.unique(rec)
        if u in uniques.values():
            raise Violation('C14/unique-name-reused', 'reused', 'unique name %s handed out twice' % u)
        uniques[rec['name']] = u
        connected[rec['name']] = u
        rules[rec['name']] = []
        rec['alive'] = True
        rec['by_serial'] = {}
        rec['nsent'] = 0
        if kind == 'real':
            def build(rec=rec):
                from txdbus import objects as to, interface as ti
                iface = ti.DBusInterface('org.sim.I1', ti.Signal('Changed', 'ss'), ti.Signal('Tick', ''),
                                         ti.Method('Echo', 's', 's'))

                class Emitter(to.DBusObject):
                    dbusInterfaces = [iface]

                    def dbus_Echo(self, s):
                        return s
                o = Emitter('/a/b')
                rec['proto'].exportObject(o)
                rec['obj'] = o
            rig.call(rec, build)
        return rec

    jpos = [0]

    def index_sent():
        for rec in peers.values():
            while rec['nsent'] < len(rec['sent']):
                m = rec['sent'][rec['nsent']]
                rec['by_serial'].setdefault(m.serial, []).append((rec['nsent'], m))
                rec['nsent'] += 1

    def resolve(dest):
        if dest is None:
            return None
        if dest.startswith(':'):
            for n, u in connected.items():
                if u == dest:
                    return n
            return None
        return owners.get(dest)

    def same_except_sender(orig, copy):
        for code in (rc.F_PATH, rc.F_INTERFACE, rc.F_MEMBER, rc.F_ERROR_NAME, rc.F_REPLY_SERIAL,
                     rc.F_DESTINATION, rc.F_UNIX_FDS):
            if orig.fields.get(code) != copy.fields.get(code):
                return 'field %s: %r -> %r' % (rc.FIELD_NAME[code], orig.fields.get(code),
                                               copy.fields.get(code))
        if orig.mtype != copy.mtype:
            return 'type %d -> %d' % (orig.mtype, copy.mtype)
        if orig.serial != copy.serial:
            return 'serial %d -> %d' % (orig.serial, copy.serial)
        if (orig.flags & 3) != (copy.flags & 3):
            return 'flags %d -> %d' % (orig.flags, copy.flags)
        if (orig.sig or '') != (copy.sig or ''):
            return 'signature %r -> %r' % (orig.sig, copy.sig)
        if orig.sig and rc.encode(orig.sig, orig.body) != rc.encode(copy.sig, copy.body):
            return 'body %r -> %r' % (orig.body, copy.body)
        return None

    def is_copy(orig, m):
        return m.mtype == orig.mtype and m.serial == orig.serial and \
            m.fields.get(rc.F_MEMBER) == orig.fields.get(rc.F_MEMBER)

    def judge(name, serial, seg):
        rec = peers[name]
        cands = rec['by_serial'].get(serial)
        if not cands:
            return
        _, m = cands.pop(0)
        true_sender = uniques[name]
        dest = m.fields.get(rc.F_DESTINATION)
        # whatever this message makes the bus write to OTHER connections is a copy of it or a
        # signal of the bus itself - never a reply or error of the bus's own making
        for who, msgs in seg.items():
            if who == name:
                continue
            for x in msgs:
                if is_copy(m, x) or (x.mtype == rc.SIGNAL and x.fields.get(rc.F_INTERFACE) == BUS):
                    continue
                raise Violation('C14/spurious', 'bus-made %s at a bystander' % ('error' if x.mtype == rc.ERROR else 'message'),
                                'while the bus processed %s of %s, connection %s received %s'
                                % (m.describe(), name, who, x.describe()))
        skind = ('absent' if rc.F_SENDER not in m.fields else
                 'true' if m.fields[rc.F_SENDER] == true_sender else 'forged')
        if skind == 'forged':
            sim.probe('forged-sender')
        if rec['kind'] == 'real':
            sim.probe('real-client-sender')
        holders = [n for n in connected if any(
            matchref.matches(r, with_sender(m, true_sender)) is not False for r in rules[n])]
        # ---- addressed to the bus itself ---------------------------------------------
        if dest == BUS:
            if holders:
                sim.probe('bus-call-while-rule-holder-matches')
            for who, msgs in seg.items():
                for x in msgs:
                    if is_copy(m, x):
                        raise Violation('C14/bus-call-forwarded', 'copy at %s'
                                        % ('rule holder' if who in holders else 'peer'),
                                        'call %s addressed to the bus was forwarded to %s'
                                        % (m.describe(), who))
            mine = [x for x in seg.get(name, []) if x.fields.get(rc.F_REPLY_SERIAL) == serial
                    and x.mtype in (rc.METHOD_RETURN, rc.ERROR)]
            if m.mtype == rc.METHOD_CALL and len(mine) != 1 and not (m.flags & 1):
                raise Violation('C14/bus-call-reply', '%d replies' % len(mine),
                                'call %s to the bus got %d replies' % (m.describe(), len(mine)))
            update_model(name, m, mine[0] if mine else None)
            sim.state(('bus-call', m.fields.get(rc.F_MEMBER), skind, len(mine)))
            return
        # ---- broadcast ------------------------------------------------------------------
        if dest is None:
            if m.mtype != rc.SIGNAL:
                return
            exp = {}
            for n in connected:
                k = sum(1 for r in rules[n]
                        if matchref.matches(r, with_sender(m, true_sender)) is True)
                kmay = sum(1 for r in rules[n]
                           if matchref.matches(r, with_sender(m, true_sender)) is not False)
                if kmay:
                    exp[n] = (1 if k else 0, kmay)
            if len([n for n, (lo, hi) in exp.items() if lo]) >= 2:
                sim.probe('broadcast-to-two-holders')
            if not exp:
                sim.probe('broadcast-no-holder')
            if name in exp:
                sim.probe('sender-holds-matching-rule')
            for who in set(list(seg) + list(exp)):
                got = [x for x in seg.get(who, []) if is_copy(m, x)]
                lo, hi = exp.get(who, (0, 0))
                if not (lo <= len(got) <= hi):
                    raise Violation('C14/broadcast',
                                    ('%d copies at a connection without matching rule' % len(got))
                                    if hi == 0 else ('%d copies at a rule holder' % len(got)),
                                    'broadcast %s: %s received %d copies; its rules %r allow %d..%d'
                                    % (m.describe(), who, len(got), rules.get(who), lo, hi))
                for x in got:
                    check_copy(m, x, true_sender, who)
            sim.state(('broadcast', len(exp), skind))
            return
        # ---- unicast ---------------------------------------------------------------------
        target = resolve(dest)
        dkind = 'unique' if dest.startswith(':') else 'well-known'
        if target is None:
            sim.probe('unicast-to-vanished-peer' if dest in vanished else 'unicast-to-unowned-name')
        else:
            sim.probe('unicast-to-' + dkind + '-name')
        if [h for h in holders if h != target]:
            sim.probe('unicast-while-rule-holder-matches')
        if target in holders:
            sim.probe('destination-also-holds-rule')
        ncopies = 0
        for who, msgs in seg.items():
            got = [x for x in msgs if is_copy(m, x)]
            if who == target:
                ncopies = len(got)
                if len(got) != 1:
                    raise Violation('C14/unicast', '%d copies at the destination%s'
                                    % (len(got), ' (which holds a matching rule)' if who in holders else ''),
                                    'message %s for %s (owner %s): destination received %d copies'
                                    % (m.describe(), dest, who, len(got)))
                check_copy(m, got[0], true_sender, who)
            elif got:
                raise Violation('C14/unicast', 'copy at %s' % ('a rule holder' if who in holders
                                                               else 'an unrelated peer'),
                                'message %s for %s (owner %s) was also delivered to %s'
                                % (m.describe(), dest, target, who))
        if target is not None and target not in seg:
            raise Violation('C14/unicast', 'not delivered',
                            'message %s for %s (owner %s) was not delivered'
                            % (m.describe(), dest, target))
        if m.flags & 1 and target is not None:
            sim.probe('no-reply-flag-forwarded')
        if not m.little and target is not None:
            sim.probe('big-endian-forwarded')
        if 'v' in (m.sig or '') and target is not None:
            sim.probe('variant-in-forwarded-body')
        sim.state(('unicast', m.mtype, dkind, skind, ncopies))

    def with_sender(m, s):
        f = dict(m.fields)
        f[rc.F_SENDER] = s
        return rc.Msg(m.mtype, m.serial, f, m.sig, m.body, m.flags)

    def check_copy(orig, copy, true_sender, who):
        if copy.fields.get(rc.F_SENDER) != true_sender:
            raise Violation('C14/sender', 'forged sender forwarded' if rc.F_SENDER in orig.fields
                            else 'sender not set',
                            'copy at %s carries sender %r; the originator is %s (it wrote %r)'
                            % (who, copy.fields.get(rc.F_SENDER), true_sender,
                               orig.fields.get(rc.F_SENDER)))
        why = same_except_sender(orig, copy)
        if why:
            raise Violation('C14/changed', why.split(':')[0].split(' ')[0] + ' ' +
                            (why.split(' ')[1] if why.startswith('field') else ''),
                            'copy at %s differs from what was sent: %s' % (who, why))

    def update_model(name, m, reply):
        mem = m.fields.get(rc.F_MEMBER)
        ok = reply is not None and reply.mtype == rc.METHOD_RETURN
        if mem == 'RequestName' and ok and m.sig == 'su':
            if reply.body[0] == 1:
                if owners.get(m.body[0]) not in (None, name):
                    sim.probe('name-taken-over')
                owners[m.body[0]] = name
                sim.probe('name-owner-changed-mid-run')
        elif mem == 'ReleaseName' and ok and m.sig == 's':
            if reply.body[0] == 1 and owners.get(m.body[0]) == name:
                del owners[m.body[0]]
        elif mem == 'AddMatch' and ok and m.sig == 's':
            try:
                rules[name].append(matchref.parse_rule(m.body[0]))
            except matchref.RuleTextError:
                pass

    def lost(name):
        if name in connected:
            vanished.append(connected.pop(name))
        for n in [n for n, o in owners.items() if o == name]:
            del owners[n]
        rules[name] = []

    def process_journal():
        index_sent()
        j = rig.journal
        while jpos[0] < len(j):
            kind, who, what = j[jpos[0]]
            if kind == 'out':
                jpos[0] += 1
                continue
            # collect the segment
            k = jpos[0] + 1
            seg = {}
            while k < len(j) and j[k][0] == 'out':
                seg.setdefault(j[k][1], []).append(j[k][2])
                k += 1
            if who in peers:
                if kind == 'in':
                    judge(who, what, seg)
                else:
                    lost(who)
            jpos[0] = k

    # ---- workload ----------------------------------------------------------------------
    npeers = 2 + ds.choose(3)
    for _ in range(npeers):
        connect()
    rig.journal[:] = []          # Hello traffic is not part of the judged history
    for rec in peers.values():
        rec['nsent'] = len(rec['sent'])
        rec['nsent0'] = len(rec['sent'])
    budget = [3 + ds.choose(28 * (3 if ctx.tier == 'thorough' else 1))]

    def some_dest():
        k = ds.weighted([5, 3, 1, 1])
        if k == 0:
            return uniques[ds.pick(order)]
        if k == 1:
            return ds.pick(NAMES)
        if k == 2:
            return ':1.999'
        return vanished[ds.choose(len(vanished))] if vanished else ':1.998'

    def op_ref(rec):
        p = rec['proto']
        k = ds.weighted([6, 4, 2.5, 1.5, 1, 1])
        if k == 0:           # unicast
            mt = ds.pick([1, 4, 2, 3])
            if mt == 1 and rec.get('nohello') and not rec.get('said_hello'):
                if ds.flag(0.5):
                    # a call to a peer before Hello gets the connection dropped: Hello first
                    rec['said_hello'] = True
                    p.bus_call('Hello')
                    sim.log('op', rec['name'], 'late-hello')
                else:
                    # ... or not: the bus drops this connection; nobody else is to hear of it
                    # beyond the call itself
                    rec['alive'] = False
                    sim.probe('call-before-hello-gets-the-connection-dropped')
            f = {rc.F_DESTINATION: some_dest()}
            if mt in (2, 3) and ds.flag(0.15):
                del f[rc.F_DESTINATION]        # a reply addressed to nobody
                sim.probe('reply-without-destination')
            if mt in (1, 4):
                f[rc.F_PATH] = ds.pick(PATHS)
                f[rc.F_MEMBER] = ds.pick(MEMBERS)
                f[rc.F_INTERFACE] = ds.pick(IFACES)
            else:
                f[rc.F_REPLY_SERIAL] = 1 + ds.choose(2**32 - 2)
            if mt == 3:
                f[rc.F_ERROR_NAME] = 'org.sim.Error.X'
            s = ds.weighted([2, 2, 3])
            if s == 1:
                f[rc.F_SENDER] = uniques[rec['name']]
            elif s == 2:
                f[rc.F_SENDER] = ds.pick([uniques[n] for n in order] + [':1.77', 'org.sim.alpha'])
            sig = gen.signature(ds, 2)
            m = rc.Msg(mt, p.next_serial(), f, sig, gen.body(ds, sig), flags=ds.pick([0, 0, 1, 2, 3]),
                       little=not ds.flag(0.25),
                       order=ds.shuffle([1, 2, 3, 4, 5, 6, 7, 8]) if ds.flag(0.3) else None)
            p.send(m)
            sim.log('op', rec['name'], 'unicast', mt, f.get(rc.F_DESTINATION), s)
        elif k == 1:         # broadcast signal
            nargs = ds.choose(3)
            body = [ds.pick(ARGVALS[:4]) for _ in range(nargs)]
            f = {rc.F_PATH: ds.pick(PATHS), rc.F_MEMBER: ds.pick(MEMBERS),
                 rc.F_INTERFACE: ds.pick(IFACES)}
            if ds.flag(0.3):
                f[rc.F_SENDER] = ds.pick([':1.77', uniques[rec['name']]])
            p.send(rc.Msg(rc.SIGNAL, p.next_serial(), f, 's' * nargs, body,
                          little=not ds.flag(0.2)))
            sim.log('op', rec['name'], 'broadcast')
        elif k == 2:         # AddMatch
            spec = gen_rule(ds)
            spec.pop('destination', None)
            p.bus_call('AddMatch', 's', [fmt_rule(spec)])
            sim.log('op', rec['name'], 'AddMatch', sorted(spec))
        elif k == 3:
            # always DO_NOT_QUEUE (no queues here), with and without the allow / replace bits
            p.bus_call('RequestName', 'su', [ds.pick(NAMES), 4 | ds.pick([0, 1, 2, 3, 1, 3])])
            sim.log('op', rec['name'], 'RequestName')
        elif k == 4:
            p.bus_call('ReleaseName', 's', [ds.pick(NAMES)])
        else:
            mem = ds.pick(['GetNameOwner', 'Hello', 'GetId'])
            if mem == 'Hello':
                rec['said_hello'] = True
            if mem == 'GetNameOwner':
                p.bus_call(mem, 's', [ds.pick(NAMES)])
            else:
                p.bus_call(mem)

    def op_real(rec):
        cl = rec['proto']
        k = ds.weighted([4, 3, 2, 1.5])
        if k == 0:
            d = rig.call(rec, cl.callRemote, ds.pick(PATHS), ds.pick(['Echo', 'Tick']),
                         interface='org.sim.I1', destination=some_dest(), signature='s',
                         body=[ds.pick(ARGVALS[:4])], expectReply=not ds.flag(0.3))
            d.addErrback(lambda f: None)
            sim.log('op', rec['name'], 'callRemote')
        elif k == 1:
            if ds.flag(0.5):
                rig.call(rec, rec['obj'].emitSignal, 'Changed', ds.pick(ARGVALS[:4]), 'bar')
            else:
                rig.call(rec, rec['obj'].emitSignal, 'Tick')
            sim.log('op', rec['name'], 'emitSignal')
        elif k == 2:
            spec = gen_rule(ds)
            spec.pop('destination', None)
            d = rig.call(rec, cl.addMatch, lambda m: None, **spec)
            d.addErrback(lambda f: None)
            sim.log('op', rec['name'], 'addMatch', sorted(spec))
        else:
            d = rig.call(rec, cl.requestBusName, ds.pick(NAMES), allowReplacement=ds.flag(0.4),
                         replaceExisting=ds.flag(0.4))
            d.addErrback(lambda f: None)
            sim.log('op', rec['name'], 'requestBusName')

    def extra():
        ops = []
        if budget[0] > 0:
            def op():
                budget[0] -= 1
                live = [n for n in order if peers[n]['alive']]
                k = ds.weighted([12, 1, 0.7, 0.25])
                if k == 3:
                    # every peer leaves, then new ones arrive: unique names must still be fresh
                    sim.probe('bus-drained-then-reconnect')
                    sim.log('op', 'drain-all')
                    for n in live:
                        rec = peers[n]
                        rec['alive'] = False
                        if rec['kind'] == 'ref':
                            rec['proto'].transport.loseConnection()
                        else:
                            rig.call(rec, rec['proto'].disconnect)
                    rig.calm()
                    for _ in range(1 + ds.choose(2)):
                        connect()
                    return
                if k == 1 and len(live) > 2:
                    n = live[ds.choose(len(live))]
                    rec = peers[n]
                    rec['alive'] = False
                    how = ds.pick(['close', 'reset'])
                    sim.log('op', n, 'disconnect', how)
                    if how == 'reset':
                        sim.fault('reset')
                        rec['conn'].reset(keep_ab=ds.choose(len(rec['conn'].pipes[0].buf) + 1))
                    else:
                        sim.fault('close')
                        if rec['kind'] == 'ref':
                            rec['proto'].transport.loseConnection()
                        else:
                            rig.call(rec, rec['proto'].disconnect)
                    return
                if k == 2 and len(order) < 7:
                    connect()
                    sim.probe('new-peer-mid-run')
                    return
                if not live:
                    return
                rec = peers[live[ds.choose(len(live))]]
                (op_ref if rec['kind'] == 'ref' else op_real)(rec)
            ops.append(('op', op))
        return {'op': ops}

    def invariant():
        check_no_exceptions(sim, 'C14')
        rig.check_wire('C14')
        process_journal()

    rig.after_step = invariant
    sched.run(1000 * (3 if ctx.tier == 'thorough' else 1), extra, invariant)
    budget[0] = 0
    ok = sched.drain(1000 * (3 if ctx.tier == 'thorough' else 1), None, invariant)
    if not ok:
        raise Violation('C14/liveness', 'no quiescence', 'drain did not reach quiescence')
    # ---- everything that reached the bus was processed ------------------------------------
    seen_in = {}
    for kind, who, what in rig.journal:
        if kind == 'in':
            seen_in[who] = seen_in.get(who, 0) + 1
    for n, rec in peers.items():
        pipe = rec['conn'].pipes[0]
        if rec['conn'].b.state == net.OPEN and not pipe.buf and not rec['conn'].b.broken:
            sent_n = len(rec['sent']) - rec.get('nsent0', 0)
            if seen_in.get(n, 0) < sent_n:
                raise Violation('C14/not-processed', 'messages stuck in the bus',
                                'peer %s wrote %d messages, all delivered to the bus, which processed '
                                'only %d of them' % (n, sent_n, seen_in.get(n, 0)))
    # ---- per (sender, receiver) order -----------------------------------------------------
    for rname, rec in peers.items():
        last = {}
        for x in rec['rcvd']:
            s = x.fields.get(rc.F_SENDER)
            src = [n for n, u in uniques.items() if u == s]
            if not src:
                continue
            pos = [i for i, mm in enumerate(peers[src[0]]['sent'])
                   if mm.serial == x.serial and mm.mtype == x.mtype]
            if not pos:
                continue
            if pos[0] < last.get(src[0], -1) and x.fields.get(rc.F_DESTINATION):
                raise Violation('C14/order', 'reordered', 'messages from %s reached %s out of order'
                                % (src[0], rname))
            last[src[0]] = max(last.get(src[0], -1), pos[0])
