"""
C05 - malformed or hostile message bytes are rejected in bounded time.

System: (bus half) the real Bus with 2-3 attached reference peers, one of which turns
hostile; (client half) a real DBusClientConnection attached to a scripted daemon that sends
corrupted frames while the client has calls pending.  Valid background traffic flows.
Faults (on frames in flight towards the txdbus receiver): bit flip, byte overwrite,
truncation followed by close, lying body / header-array / array / string lengths, hostile
signatures (zero-size array elements, maximal nesting, unterminated containers, dangling
'a', unknown type codes) with lengths patched so that framing passes, wrong header-field
types, message types 0 and 5+.
Oracle: (1) interpreter-step budget per delivery (sys.monitoring LINE events; linear in the
bytes delivered so far on that connection) - non-termination is detected deterministically,
not by wall clock; (2) decoded values have at most c x input-length nodes and a delivery
allocates at most 4 MiB + 512 bytes per byte received (tracemalloc peak); (3) the delivery
either produced a message or cost exactly that connection; (4) containment: the other
peers' next call completes within the drain bound and the bus no longer knows the dropped
connection.
"""
import os
import struct
import sys

from simdbus import gen, net, refcodec as rc
from simdbus.harness import BusRig, ClientRig, Obs, exc_key
from simdbus.kernel import Violation
from simdbus.sched import Scheduler

import txdbus.message as t_message

PROPERTY = 'C05'
LEVEL = 'exploration'
QUICK_RUNS = 12000
QUICK_BUDGET_S = 60
THOROUGH_BUDGET_S = 900
RULE = ('valid traffic of 3-20 messages with 1-4 corrupted frames (8 mutation kinds incl. 24 '
        'hostile signatures x array lengths 0 / small / 2^31) towards the real bus (2-3 peers) '
        'or the real client, seeded read splitting and interleaving; every delivery to the '
        'victim runs under a line-step budget of 20000 + 200 x bytes delivered so far')
STATE_MEASURE = 'distinct (victim, mutation kind, outcome) triples'
PROBES = ['zero-size-array-element', 'deep-nesting', 'unterminated-container', 'lying-array-length',
          'lying-body-length', 'truncated-then-closed', 'bitflip-survived-as-message',
          'exception-closed-only-that-connection', 'other-peer-call-completed-after-fault',
          'client-pending-calls-failed-on-drop', 'hostile-variant-signature', 'unknown-message-type',
          'wrong-header-field-type', 'budget-margin-over-10x', 'lying-string-length', 'lying-unix-fds-count', 'large-header-body-dribbled', 'siege-of-hostile-peers', 'array-of-many-arrays']
COMPONENTS = {
    'real': ['txdbus.message.parseMessage (counting pass-through wrapper)', 'txdbus.marshal.unmarshal*',
             'txdbus.protocol framing', 'txdbus.bus.Bus / BusProtocol', 'txdbus.client.DBusClientConnection'],
    'stub': ['transports', 'peers / daemon (reference codec + byte-level mutators)',
             'step counter (sys.monitoring LINE events)'],
}
ASSUMPTIONS = ['work is measured in executed Python source lines, not bytes copied',
               'a receiver left waiting for the rest of a frame whose declared length lies is an '
               'acceptable outcome (the peer is then closed by the scenario)']

TOOL = 4
BUDGET_A = 20000
BUDGET_B = 200
BUDGET_READ = 400
NODE_FACTOR = 2

HOSTILE_SIGS = [
    'a()', 'a(())', 'aa()', 'a{}', 'a{()()}', '(a())', 'va()',
    '(' * 200, '(' * 120 + ')' * 120, 'a' * 254 + 'y', 'a' * 255, 'a' * 100 + '(' * 100,
    '(i', 'a', 'a(', 'z', 'i)', '{ss}', 'a{sv', 'a{vs}', '()', 'a' * 60 + '()', 'ai' * 120, 'v' * 200,
    # well-formed array types whose length field lies (every element decoder must fail at the
    # end of the data rather than invent values)
    'ah', 'a(h)', 'aah', 'a(hh)', 'ay', 'au', 'as', 'av', 'ad', 'a{sv}', 'a(ii)', 'ab', 'ag', 'ao',
    'a(yh)', 'aa{sh}',
    # many small containers followed by one illegal / unbalanced character
    # a value that cannot be decoded, many containers deep (the failure path of nested values)
    '(' * 22 + 's' + ')' * 22, '(' * 30 + 'ai' + ')' * 30, '(' * 26 + 'v' + ')' * 26, 'a{s' + '(' * 24 + 's' + ')' * 24 + '}',
    '(i)' * 28 + '!', '(i)' * 40 + ')', 'a{sv}' * 20 + '(', '(ii)' * 30 + 'z', 'ai' * 60 + '}', '((i))' * 25 + '(',
]


HARNESS_DIR = os.path.dirname(os.path.dirname(os.path.abspath(__file__))) + os.sep


COPY_FACTOR = 8


class CountingBytes(bytes):
    """bytes whose slices are counted (and count in turn)"""

    @classmethod
    def of(cls, data, tally):
        b = cls(data)
        b.tally = tally
        return b

    def __getitem__(self, k):
        r = bytes.__getitem__(self, k)
        if isinstance(k, slice):
            self.tally[0] += len(r)
            r = CountingBytes(r)
            r.tally = self.tally
        return r


class BudgetExceeded(BaseException):
    pass


class StepCounter:
    def __init__(self):
        self.n = 0
        self.limit = 0
        self.on = False
        self.max_ratio = 0.0
        self.skip = None

    def start(self, limit, skip_harness=False):
        mon = sys.monitoring
        self.n = 0
        self.limit = limit
        self.skip = HARNESS_DIR if skip_harness else None
        try:
            mon.use_tool_id(TOOL, 'c05')
        except ValueError:
            pass
        mon.register_callback(TOOL, mon.events.LINE, self._cb)
        mon.set_events(TOOL, mon.events.LINE)
        self.on = True

    def _cb(self, code, line):
        if self.skip is not None and code.co_filename.startswith(self.skip):
            return
        self.n += 1
        if self.n > self.limit:
            # disarm before raising, otherwise the callback fires again inside handlers
            sys.monitoring.set_events(TOOL, 0)
            self.on = False
            raise BudgetExceeded()

    def stop(self):
        mon = sys.monitoring
        mon.set_events(TOOL, 0)
        mon.register_callback(TOOL, mon.events.LINE, None)
        try:
            mon.free_tool_id(TOOL)
        except ValueError:
            pass
        self.on = False
        self.max_ratio = max(self.max_ratio, self.n / float(self.limit))
        return self.n


def nodes(v):
    if isinstance(v, (list, tuple)):
        return 1 + sum(nodes(x) for x in v)
    if isinstance(v, dict):
        return 1 + sum(nodes(k) + nodes(x) for k, x in v.items())
    return 1


def raw_message(mtype, serial, fields, sig, body_bytes, little=True, flags=0, body_len=None,
                extra=()):
    """a frame whose body is arbitrary bytes under an arbitrary signature string; header and
    lengths are consistent unless body_len says otherwise"""
    entries = [(c, rc.V(rc.FIELD_SIG[c], v)) for c, v in sorted(fields.items())]
    entries.append((rc.F_SIGNATURE, rc.V('g', sig)))
    for c, s, v in extra:
        entries.append((c, rc.V(s, v)))
    hdr = rc.encode('yyyyuua(yv)',
                    [ord('l') if little else ord('B'), mtype, flags, 1,
                     len(body_bytes) if body_len is None else body_len, serial, entries], little, 0)
    return hdr + b'\0' * ((-len(hdr)) % 8) + body_bytes


def mutate(ds, sim, little_serial):
    """-> (kind, bytes to write, close_after)"""
    serial = little_serial
    kind = ds.weighted([3, 2, 2, 2, 1.5, 5, 1.5, 1, 3, 1.5, 0.6, 1])
    base = gen.random_message(ds, serial, mtypes=(1, 4, 2, 3), maxsig=3)
    if rc.F_DESTINATION in base.fields:
        base.fields[rc.F_DESTINATION] = 'org.freedesktop.DBus'
        base.encode()
    raw = bytearray(base.raw)
    if kind == 0:
        i = ds.choose(len(raw))
        raw[i] ^= 1 << ds.choose(8)
        return 'bitflip', bytes(raw), False
    if kind == 1:
        for _ in range(1 + ds.choose(3)):
            raw[ds.choose(len(raw))] = ds.choose(256)
        return 'overwrite', bytes(raw), False
    if kind == 2:
        k = ds.choose(len(raw))
        sim.probe('truncated-then-closed')
        return 'truncate', bytes(raw[:k]), True
    if kind == 3:
        e = '<' if base.little else '>'
        cur = struct.unpack_from(e + 'I', raw, 4)[0]
        new = ds.pick([0, cur + 1, max(0, cur - 1), cur + 8, 2**31, 2**32 - 1, 2**27 + 1])
        struct.pack_into(e + 'I', raw, 4, new)
        sim.probe('lying-body-length')
        return 'body-length', bytes(raw), new > cur
    if kind == 4:
        e = '<' if base.little else '>'
        cur = struct.unpack_from(e + 'I', raw, 12)[0]
        new = ds.pick([0, cur + 1, max(0, cur - 1), cur + 8, 2**31, 2**32 - 8])
        struct.pack_into(e + 'I', raw, 12, new)
        return 'header-array-length', bytes(raw), new > cur
    if kind == 5:
        sig = ds.pick(HOSTILE_SIGS)
        if '()' in sig or '{}' in sig or sig in ('a()',):
            sim.probe('zero-size-array-element')
        if sig.count('(') > 50 or sig.count('a') > 50:
            sim.probe('deep-nesting')
        if sig in ('(i', 'a', 'a(', 'a{sv') or sig.endswith('(' * 100):
            sim.probe('unterminated-container')
        little = not ds.flag(0.3)
        e = '<' if little else '>'
        alen = ds.pick([8, 0, 1, 4, 64, 2**31, 2**32 - 1, 16, 0x0ffffff8, 2**27, 2**24])
        if alen >= 2**24:
            sim.probe('lying-array-length')
        pad = ds.pick([0, 4, 8, 64, 300])
        if sig.startswith('v'):
            sim.probe('hostile-variant-signature')
            inner = ds.pick(['a()', 'a' * 200, '(' * 100, 'a{}'])
            body = bytes([len(inner)]) + inner.encode() + b'\0'
            body += b'\0' * ((-len(body)) % 8) + struct.pack(e + 'I', alen) + b'\0' * pad
        else:
            body = struct.pack(e + 'I', alen) + struct.pack(e + 'I', alen) + b'\0' * pad
        f = {rc.F_PATH: '/h', rc.F_MEMBER: 'M', rc.F_INTERFACE: 'org.sim.H',
             rc.F_DESTINATION: 'org.freedesktop.DBus'}
        return 'hostile-signature', raw_message(ds.pick([4, 1]), serial, f, sig, body, little), False
    if kind == 6:
        code = ds.pick([1, 2, 3, 5, 6, 7, 8, 9])
        s, v = ds.pick([('i', 5), ('s', 'x'), ('ay', [1, 2]), ('v', rc.V('i', 1)), ('d', 1.5)])
        f = {rc.F_PATH: '/h', rc.F_MEMBER: 'M', rc.F_INTERFACE: 'org.sim.H'}
        f.pop(code, None)
        m = rc.Msg(ds.pick([1, 4]), serial, f, '', [], extra=[(code, s, v)])
        sim.probe('wrong-header-field-type')
        return 'header-field-type', m.encode(), False
    if kind == 8:
        # a string / object-path / signature length prefix that lies (also >= 2^31: a decoder
        # that reads it as a signed number moves backwards)
        little = not ds.flag(0.3)
        e = '<' if little else '>'
        lie = ds.pick([0xFFFFFFF0, 0xFFFFFFF1, 0xFFFFFFF4, 0xFFFFFFF6, 0xFFFFFFFF, 2**31, 2**31 + 5,
                       0x7FFFFFFF, 1000, 2**27, 0xFFFFFFF8, 0xFFFFFFEC])
        where = ds.choose(4)
        sim.probe('lying-string-length')
        if where == 0:
            # the PATH header field (first field: its length prefix sits at offset 20)
            m = rc.Msg(ds.pick([1, 4]), serial, {rc.F_PATH: '/h/i', rc.F_MEMBER: 'M',
                                                rc.F_INTERFACE: 'org.sim.H'}, 's', ['x'], little=little)
            raw2 = bytearray(m.encode())
            struct.pack_into(e + 'I', raw2, 20, lie)
            return 'string-length', bytes(raw2), False
        sig = ['s', 'as', 'a(s)', 'a{ss}'][where] if where < 4 else 's'
        pad = b'abc\0' * ds.pick([1, 4, 40])
        if sig == 's':
            body = struct.pack(e + 'I', lie) + pad
        elif sig == 'as':
            body = struct.pack(e + 'I', ds.pick([len(pad) + 4, 64, 2**31])) + struct.pack(e + 'I', lie) + pad
        else:
            body = struct.pack(e + 'I', ds.pick([len(pad) + 8, 64])) + b'\0\0\0\0' + struct.pack(e + 'I', lie) + pad
        f = {rc.F_PATH: '/h', rc.F_MEMBER: 'M', rc.F_INTERFACE: 'org.sim.H',
             rc.F_DESTINATION: 'org.freedesktop.DBus'}
        return 'string-length', raw_message(ds.pick([4, 1]), serial, f, sig, body, little), False
    if kind == 11:
        # a well-formed message whose body is an array of many small arrays (containers meeting
        # containers: the work must stay proportional to the bytes)
        sim.probe('array-of-many-arrays')
        n = 100 + ds.choose(400)
        sig = ds.pick(['aay', 'aas', 'a{sas}', 'aai', 'a(ias)'])
        if sig == 'aay':
            body = [[[] if i % 3 else [1, 2] for i in range(n)]]
        elif sig == 'aas':
            body = [[[] if i % 2 else ['x'] for i in range(n)]]
        elif sig == 'aai':
            body = [[[] if i % 2 else [7] for i in range(n)]]
        elif sig == 'a{sas}':
            body = [{'k%d' % i: ([] if i % 2 else ['v']) for i in range(n)}]
        else:
            body = [[(i, []) for i in range(n)]]
        f = {rc.F_PATH: '/h', rc.F_MEMBER: 'M', rc.F_INTERFACE: 'org.sim.H'}
        return 'nested-arrays', rc.Msg(4, serial, f, sig, body, little=not ds.flag(0.3)).encode(), False
    if kind == 10:
        # a well-formed message with a large header (unknown field codes are legal and skipped)
        # whose body then arrives a byte at a time: the work must stay proportional to the
        # bytes, not to reads x header size
        sim.probe('large-header-body-dribbled')
        nf = 150 + ds.choose(150)
        extra = [(100 + (i % 100), 's', 'x' * 6) for i in range(nf)]
        blen = 400 + ds.choose(600)
        f = {rc.F_PATH: '/h', rc.F_MEMBER: 'M', rc.F_INTERFACE: 'org.sim.H'}
        body = struct.pack('<I', blen) + b'\x07' * blen
        return 'dribble', raw_message(4, serial, f, 'ay', body, True, extra=extra), False
    if kind == 9:
        # a unix_fds header that declares descriptors which were never sent
        sim.probe('lying-unix-fds-count')
        f = {rc.F_PATH: '/h', rc.F_MEMBER: 'M', rc.F_INTERFACE: 'org.sim.H',
             rc.F_UNIX_FDS: ds.pick([1, 3, 1000, 2**31, 2**32 - 1])}
        sig, body = ds.pick([('', []), ('h', [0]), ('ah', [[0, 1, 7]]), ('s', ['x'])])
        m = rc.Msg(ds.pick([1, 4, 2 if False else 4]), serial, f, sig, body, little=not ds.flag(0.3))
        return 'unix-fds-count', m.encode(), False
    mt = ds.pick([0, 5, 6, 255])
    base2 = bytearray(rc.Msg(4, serial, {rc.F_PATH: '/h', rc.F_MEMBER: 'M',
                                         rc.F_INTERFACE: 'org.sim.H'}).encode())
    base2[1] = mt
    sim.probe('unknown-message-type')
    return 'message-type', bytes(base2), False


def scenario(ctx):
    ds, sim = ctx.ds, ctx.sim
    victim = ds.pick(['bus', 'client'])
    ctx.config.update(victim=victim)
    counter = StepCounter()
    parsed = []
    copied = [0.0]
    orig_parse = t_message.parseMessage

    def counting_parse(raw, fds):
        # the decoder sees the message as a bytes object that counts what is sliced out of it
        # (and out of its slices): copying is work the step counter does not see
        tally = [0]
        m = orig_parse(CountingBytes.of(raw, tally), fds)
        copied[0] = max(copied[0], tally[0] / float(len(raw) + 1024))
        if tally[0] > COPY_FACTOR * len(raw) + 4096:
            raise Violation('C05/allocation', 'copies',
                            'decoding a message of %d bytes copied %d bytes out of it (slices of slices '
                            'included)' % (len(raw), tally[0]))
        n = nodes(m.body) if m.body is not None else 0
        parsed.append((len(raw), n))
        if n > NODE_FACTOR * len(raw) + 64:
            raise Violation('C05/allocation', 'nodes', 'decoding %d bytes built %d value nodes'
                            % (len(raw), n))
        return m
    t_message.parseMessage = counting_parse
    try:
        if victim == 'bus':
            run_bus(ctx, counter)
        else:
            run_client(ctx, counter)
    finally:
        t_message.parseMessage = orig_parse
        if counter.on:
            counter.stop()
    if counter.max_ratio < 0.1:
        sim.probe('budget-margin-over-10x')


MEM_A = 4 * 1024 * 1024
MEM_B = 512
RLIMIT_AS = 2560 * 1024 ** 2        # per worker: a runaway allocation becomes MemoryError, not an OOM kill


def guarded_deliver(sim, counter, pipe, n, delivered, what):
    """deliver under the step budget and the allocation budget; returns the escaping
    exception (or None)"""
    import tracemalloc
    delivered[0] += n
    if len(delivered) == 1:
        delivered.extend([0, 0])         # steps used so far, reads so far
    delivered[2] += 1
    limit = BUDGET_A + BUDGET_B * delivered[0]
    tracemalloc.start(1)
    base = 0
    counter.start(limit)
    try:
        err = net.deliver(sim, pipe, n)
    except BudgetExceeded:
        counter.stop()
        tracemalloc.stop()
        raise Violation('C05/step-budget', what[0] or 'valid traffic',
                        'a delivery of %d bytes (%d so far on this connection) exceeded %d '
                        'interpreter steps; last mutation: %s' % (n, delivered[0], limit, what[0]))
    used = counter.stop()
    delivered[1] += used
    # amortised: the whole stream so far costs a constant per read plus a constant per byte
    cum = BUDGET_A + BUDGET_READ * delivered[2] + BUDGET_B * delivered[0]
    counter.max_cum = max(getattr(counter, 'max_cum', 0.0), delivered[1] / float(cum))
    if delivered[1] > cum:
        tracemalloc.stop()
        raise Violation('C05/step-budget', 'cumulative: ' + (what[0] or 'valid traffic'),
                        '%d bytes in %d reads cost %d interpreter steps in total (budget %d: '
                        'constant per read + constant per byte); last mutation: %s'
                        % (delivered[0], delivered[2], delivered[1], cum, what[0]))
    peak = tracemalloc.get_traced_memory()[1] - base
    tracemalloc.stop()
    if peak > MEM_A + MEM_B * delivered[0] or isinstance(err, MemoryError):
        raise Violation('C05/allocation', what[0] or 'valid traffic',
                        'a delivery of %d bytes (%d so far on this connection) allocated %d bytes '
                        '(budget %d); last mutation: %s%s'
                        % (n, delivered[0], peak, MEM_A + MEM_B * delivered[0], what[0],
                           '; MemoryError' if isinstance(err, MemoryError) else ''))
    return err


def run_bus(ctx, counter):
    ds, sim = ctx.ds, ctx.sim
    rig = BusRig(ctx, creds=ds.flag(0.5), prop='C05')
    good = [rig.add_peer() for _ in range(1 + ds.choose(2))]
    if ds.flag(0.03):
        # a siege: the process has already refused dozens of hostile peers (each sent one message
        # with a long malformed signature and lost its connection) before this run's traffic
        sim.probe('siege-of-hostile-peers')
        nsiege = 40 + ds.choose(80)
        lie = struct.pack('<I', 0x0ffffff8) + b'\0' * 12
        arsenal = [('(' * 250, b'\0' * 8), ('a' * 255, b'\0' * 8), ('a' * 120 + '(' * 130, b'\0' * 8),
                   ('((i))' * 49 + '(', b'\0' * 8), ('a{sv}' * 50 + '{', b'\0' * 8),
                   ('(' * 128 + ')' * 120, b'\0' * 8), ('ai' * 127 + 'a', b'\0' * 8),
                   ('ai', lie), ('a()', lie), ('as', lie), ('a{sv}', lie),
                   # lengths that end inside an element / elements that occupy nothing
                   ('ai', struct.pack('<I', 6) + b'\0' * 8), ('a()', struct.pack('<I', 8) + b'\0' * 12),
                   ('a(ii)', struct.pack('<I', 12) + b'\0' * 20), ('ax', struct.pack('<I', 9) + b'\0' * 20)]
        weapons = [arsenal[ds.choose(len(arsenal))] for _ in range(1 + ds.choose(2))]
        first_cost = {}
        first_depth = {}
        for k in range(nsiege):
            h = rig.add_peer()
            sig, body = weapons[k % len(weapons)]
            f = {rc.F_PATH: '/h', rc.F_MEMBER: 'M', rc.F_INTERFACE: 'org.sim.H',
                 rc.F_DESTINATION: 'org.freedesktop.DBus'}
            h['proto'].transport.write(raw_message(1, 77, f, sig, body))
            # refusing the same bytes costs the same the hundredth time as the first
            nexc = len(sim.exceptions)
            counter.start(10 ** 9, skip_harness=True)
            rig.calm()
            cost = counter.stop()
            # ... and the exception it ends with does not drag the earlier refusals along
            for where, whatx, e in sim.exceptions[nexc:]:
                depth, tb = 0, e.__traceback__
                while tb is not None:
                    depth, tb = depth + 1, tb.tb_next
                if sig not in first_depth:
                    first_depth[sig] = depth
                elif depth > first_depth[sig] + 3:
                    raise Violation('C05/allocation', 'history-dependent traceback',
                                    'the exception refusing a hostile message (signature %r...) refers to '
                                    '%d stack entries for the %dth peer, %d for the first: earlier refusals '
                                    'are kept alive' % (sig[:12], depth, k + 1, first_depth[sig]))
            if sig not in first_cost:
                first_cost[sig] = cost
            elif cost > first_cost[sig] + 400:
                raise Violation('C05/step-budget', 'history-dependent cost',
                                'refusing the same hostile message (signature %r...) cost %d interpreter '
                                'steps the first time and %d steps for the %dth peer'
                                % (sig[:12], first_cost[sig], cost, k + 1))
            if h['conn'].b.state == net.OPEN:
                h['proto'].transport.loseConnection()
                rig.calm()
        for where, whatx, e in sim.exceptions:
            if whatx != 'dataReceived':
                raise Violation('C05/containment', exc_key(e), 'exception outside the receive path '
                                'during the siege (%s of %s): %r' % (whatx, where, e))
        del sim.exceptions[:]
    bad = rig.add_peer()
    bad_unique = bad['proto'].unique
    pipe = bad['conn'].pipes[0]
    delivered = [pipe.base]
    what = [None]
    nmsgs = 3 + ds.choose(18 * (3 if ctx.tier == 'thorough' else 1))
    nfaults = 1 + ds.choose(4)
    fault_at = sorted(set(ds.choose(nmsgs) for _ in range(nfaults)))
    outcomes = []
    closed_by_us = False
    sizew = [[3, 2, 1, 3, 2, 2, 1, 2], [1, 0, 0, 0, 0, 0, 0, 0]][ds.choose(2)]
    for i in range(nmsgs):
        p = bad['proto']
        if bad['conn'].a.state != net.OPEN or bad['conn'].b.state != net.OPEN:
            break
        if i in fault_at:
            kind, data, close = mutate(ds, sim, p.next_serial())
            what[0] = kind
            sim.fault('corrupt')
            sim.log('fault', kind, len(data))
            if data:
                p.transport.write(data)
            if close:
                p.transport.loseConnection()
                closed_by_us = True
        else:
            if ds.flag(0.5):
                p.bus_call('GetId')
            else:
                p.bus_call('GetNameOwner', 's', ['org.sim.none'])
        # background traffic from a good peer
        if ds.flag(0.5):
            g = ds.pick(good)
            g['proto'].bus_call('GetId')
        # deliver: the hostile pipe under the budget, everything else plainly
        steps = 0
        dribble = struct.unpack_from('<I', data, 4)[0] if i in fault_at and what[0] == 'dribble' else 0
        while steps < 400 + 2 * dribble:
            steps += 1
            pipes = net.deliverable(sim)
            if not pipes:
                los = net.losable(sim)
                if not los:
                    break
                los[ds.choose(len(los))].do_lose()
                continue
            pp = pipes[ds.choose(len(pipes))]
            if pp is pipe:
                n, bc = net.chunk_size(ds, pp, sizew)
                if dribble:
                    # header in large reads, then the body a byte at a time
                    n = min(len(pp.buf) - dribble, 512) if len(pp.buf) > dribble else 1
                    bc = 'mid'
                if bc != 'all':
                    sim.nontrivial = True
                    sim.faults['split'] += 1
                sim.sched('d', 'bad', bc)
                err = guarded_deliver(sim, counter, pp, n, delivered, what)
                if err is not None:
                    outcomes.append((what[0], 'exception', type(err).__name__))
                    sim.state(('bus', what[0], type(err).__name__))
            else:
                err = net.deliver(sim, pp, len(pp.buf))
                if err is not None:
                    raise Violation('C05/containment', exc_key(err),
                                    'an exception escaped while the bus served a well-behaved '
                                    'peer: %r' % (err,))
    # ---- containment -----------------------------------------------------------------
    dropped = bad['conn'].b.state != net.OPEN
    for where, whatx, e in sim.exceptions:
        if not where.startswith(bad['name']):
            raise Violation('C05/containment', exc_key(e), 'exception at %s: %r' % (where, e))
    for g in good:
        if g['conn'].b.state != net.OPEN or g['conn'].a.state != net.OPEN:
            raise Violation('C05/containment', 'good peer dropped',
                            'a well-behaved peer lost its connection (last mutation %s)' % what[0])
    if not dropped:
        # waiting for more bytes of a lying frame is acceptable: close the peer ourselves
        bad['proto'].transport.loseConnection()
    rig.calm()
    g = good[0]
    nbefore = len(g['proto'].messages)
    m = g['proto'].bus_call('GetNameOwner', 's', [bad_unique])
    rig.calm()
    ans = [x for x in g['proto'].messages[nbefore:] if x.fields.get(rc.F_REPLY_SERIAL) == m.serial]
    if len(ans) != 1:
        raise Violation('C05/liveness', 'probe call unanswered',
                        'after the fault a well-behaved peer got %d answers to its next call'
                        % len(ans))
    sim.probe('other-peer-call-completed-after-fault')
    if ans[0].mtype != rc.ERROR:
        raise Violation('C05/containment', 'dropped connection still known',
                        'the bus still resolves %s after that connection was lost' % bad_unique)
    if dropped and not closed_by_us:
        sim.probe('exception-closed-only-that-connection')
    if not outcomes:
        sim.state(('bus', what[0], 'no-exception'))


def run_client(ctx, counter):
    ds, sim = ctx.ds, ctx.sim
    rig = ClientRig(ctx, unix=ds.flag(0.2))
    cl = rig.proto
    daemon = rig.daemon
    pipe = rig.conn.pipes[1]
    delivered = [pipe.base]
    what = [None]
    sink = []
    calls = []
    for i in range(1 + ds.choose(3)):
        d = rig.call(cl.callRemote, '/x', 'M%d' % i, interface='org.sim.X', destination='org.sim.x')
        calls.append(Obs(sim, i, sink).watch(d))
    rig.calm()
    got_signals = []
    rig.call(lambda: cl.addMatch(lambda m: got_signals.append(m), interface='org.sim.Bg'))
    rig.calm()
    nmsgs = 3 + ds.choose(18 * (3 if ctx.tier == 'thorough' else 1))
    nfaults = 1 + ds.choose(4)
    fault_at = sorted(set(ds.choose(nmsgs) for _ in range(nfaults)))
    sizew = [[3, 2, 1, 3, 2, 2, 1, 2], [1, 0, 0, 0, 0, 0, 0, 0]][ds.choose(2)]
    nvalid = 0
    for i in range(nmsgs):
        if rig.conn.a.state != net.OPEN or daemon.transport.state != net.OPEN:
            break
        if i in fault_at:
            kind, data, close = mutate(ds, sim, daemon.next_serial())
            what[0] = kind
            sim.fault('corrupt')
            sim.log('fault', kind, len(data))
            if data:
                daemon.transport.write(data)
            if close:
                daemon.transport.loseConnection()
        else:
            daemon.signal('/bg', 'org.sim.Bg', 'Tick', 's', ['n%d' % i])
            nvalid += 1
        steps = 0
        dribble = struct.unpack_from('<I', data, 4)[0] if i in fault_at and what[0] == 'dribble' else 0
        while pipe.buf and rig.conn.a.state == net.OPEN and steps < 400 + 2 * dribble:
            steps += 1
            n, bc = net.chunk_size(ds, pipe, sizew)
            if dribble:
                n = min(len(pipe.buf) - dribble, 512) if len(pipe.buf) > dribble else 1
                bc = 'mid'
            if bc != 'all':
                sim.nontrivial = True
                sim.faults['split'] += 1
            sim.sched('d', bc)
            err = guarded_deliver(sim, counter, pipe, n, delivered, what)
            if err is not None:
                sim.state(('client', what[0], type(err).__name__))
            back = rig.conn.pipes[0]
            if back.buf and daemon.transport.state == net.OPEN:
                net.deliver(sim, back, len(back.buf))
    for where, whatx, e in sim.exceptions:
        if whatx != 'dataReceived':
            raise Violation('C05/containment', exc_key(e),
                            'exception outside the receive path (%s of %s): %r' % (whatx, where, e))
    if rig.conn.a.state == net.LOST or rig.conn.a.eof:
        # the connection is gone: everything pending fails exactly once
        rig.calm()
        los = net.losable(sim)
        for t in los:
            t.do_lose()
        for o in calls:
            if len(o.fired) != 1:
                raise Violation('C05/containment', 'pending call fired %d times' % len(o.fired),
                                'after a hostile frame cost the connection, a pending call '
                                'fired %d times' % len(o.fired))
        sim.probe('client-pending-calls-failed-on-drop')
    else:
        if what[0] in ('bitflip', 'overwrite'):
            sim.probe('bitflip-survived-as-message')
        sim.state(('client', what[0], 'survived'))
