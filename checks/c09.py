"""
C09 - connecting always concludes; a lost connection fails all pending work once.

Part A: client.connect(reactor, address) on the simulated reactor with the real Twisted
endpoint classes: per-address refuse / late failure / accept, and behind an accepted
address a spec-derived server that may refuse every mechanism, close after k bytes of the
handshake, close before answering Hello, answer Hello with an error, or behave; resets at
arbitrary steps.  Oracle: addresses tried in listed order, each once, none after the first
reachable one; the Deferred fires exactly once within the drain bound.

Part B: an established connection with calls (with/without deadlines), connection-level
disconnect callbacks and proxies (explicit interfaces / introspected) in flight is closed or
reset at a scheduler-chosen step.  Oracle: every outstanding call fails exactly once with
the loss reason, no timer survives, every registered callback of the connection and of
every proxy the workload still references runs exactly once, nothing fires afterwards.
"""
import functools

from twisted.internet import defer, error as tierror
from twisted.python.failure import Failure

from simdbus import gen, net, refcodec as rc
from simdbus.harness import ClientRig, Obs, check_no_exceptions, check_no_logged_errors, exc_key
from simdbus.kernel import DecisionStream, Node, SimCancelled, Violation
from simdbus.refpeer import MECHS, RefSaslServer
from simdbus.sched import Scheduler
from simdbus.seams import KNOWN_AT_IMPORT

from txdbus import client as t_client, error as t_error

PROPERTY = 'C09'
LEVEL = 'exploration'
QUICK_RUNS = 60000
QUICK_BUDGET_S = 60
THOROUGH_BUDGET_S = 900
RULE = ('A: address lists of 0-5 unix/tcp/nonce-tcp/junk entries x per-address '
        'refuse/late-fail/accept x server scripts (reject all, close after k handshake bytes, '
        'close before Hello reply, Hello error, good) x resets; B: histories of calls, '
        'disconnect callbacks (some cancelled), proxies (explicit / by name / introspected, '
        'some dropped) interleaved by the seeded scheduler with a close or reset at an '
        'arbitrary step; sweep: the loss injected after every step of seeded histories')
STATE_MEASURE = ('A: (attempt outcomes, server script, result kind); B: (calls pending at loss, '
                 'callbacks registered, proxies by kind, loss kind)')
PROBES = ['A-no-address', 'A-all-refused', 'A-second-address-used', 'A-closed-during-auth',
          'A-auth-refused', 'A-closed-before-hello-reply', 'A-hello-error', 'A-connected', 'A-second-connect-same-address',
          'B-loss-with-pending-calls', 'B-loss-with-deadline', 'B-proxy-explicit',
          'B-proxy-introspected', 'B-proxy-by-name', 'B-two-proxies-same-object',
          'B-introspection-in-flight-at-loss', 'B-errback-issues-call', 'B-reset',
          'B-client-disconnect', 'B-callback-cancelled', 'B-all-callbacks-cancelled-then-new-one', 'B-disconnect-callback-raises', 'B-disconnect-callback-returns-a-deferred', 'B-call-cancelled-by-its-owner', 'B-proxy-dropped', 'B-second-connection',
          'B-call-answered-with-error', 'B-bound-method-callback', 'B-callback-registered-twice',
          'B-callback-issues-call']
COMPONENTS = {
    'real': ['txdbus.client.connect / DBusClientFactory / DBusClientConnection',
             'txdbus.endpoints.getDBusEndpoints', 'twisted UNIXClientEndpoint / TCP4ClientEndpoint / '
             '_WrappingFactory', 'txdbus.objects.DBusObjectHandler.getRemoteObject / RemoteDBusObject',
             'txdbus.introspection parser', 'ClientAuthenticator'],
    'stub': ['reactor (connectUNIX/connectTCP, clock)', 'transport', 'bus daemon (scripted, reference codec)'],
}
ASSUMPTIONS = ['a server that stays silent forever is outside the statement (no handshake timeout '
               'is promised): scripted servers always eventually answer or close',
               'calls issued by user errbacks while the loss is being delivered are not '
               '"outstanding calls" and are not judged']

ADDRS = [
    ('unix', 'unix:path=/tmp/sim-bus-a'),
    ('unix', 'unix:abstract=sim-bus-b'),
    ('unix', 'unix:tmpdir=/tmp'),
    ('tcp', 'tcp:host=127.0.0.1,port=1234'),
    ('tcp', 'nonce-tcp:host=127.0.0.1,port=2345,noncefile=/tmp/nonce'),
    (None, 'foo:bar=1'),
    (None, 'launchd:env=DBUS_LAUNCHD_SESSION_BUS_SOCKET'),
    ('unix', 'unix:path=/tmp/sim-bus-c,guid=0011'),
    ('unix', 'unix:guid=00aa,path=/tmp/sim-bus-d'),
    ('tcp', 'tcp:port=4321,host=localhost,family=ipv4'),
    ('unix', 'unix:abstract=/tmp/dbus-XyZ,guid=1f'),
]


def expected_address(entry):
    """what the DBus address entry designates (written from the specification)"""
    import os
    kind, _, rest = entry.partition(':')
    kv = dict(x.split('=', 1) for x in rest.split(',') if '=' in x)
    if kind == 'unix':
        if 'path' in kv:
            return kv['path']
        if 'abstract' in kv:
            return '\0' + kv['abstract']
        return None          # tmpdir designates a listening directory: not judged
    return (kv['host'], int(kv['port']))


class Connector:
    def __init__(self, idx):
        self.idx = idx
        self.stopped = False

    def getDestination(self):
        return net.FakeAddress('dest%d' % self.idx)

    def stopConnecting(self):
        self.stopped = True

    def disconnect(self):
        self.stopped = True


# =======================================================================================
def part_a(ctx):
    ds, sim = ctx.ds, ctx.sim
    n = ds.choose(6)
    entries = [ADDRS[ds.choose(len(ADDRS))] for _ in range(n)]
    address = ';'.join(e[1] for e in entries)
    real = [e for e in entries if e[0]]
    node = Node('c1', serial_start=1 + ds.choose(2**31), known=dict(KNOWN_AT_IMPORT))
    ctx.seams.home()     # synthetic user (cookie mechanism finds no keyring -> ERROR)
    # the same process may connect to the same address string again (reconnect, retry): every
    # connect() is judged on its own
    rounds = 2 if ds.flag(0.3) else 1
    for rnd in range(rounds):
        if rnd:
            sim.probe('A-second-connect-same-address')
        outcomes = [ds.pickw([('refuse', 3), ('late-fail', 2), ('accept', 4), ('dns-fail', 1), ('odd-fail', 0.5)])
                    for _ in real]
        script = ds.pickw([('good', 5), ('reject-all', 2), ('close-after-k', 3),
                           ('close-before-hello-reply', 2), ('hello-error', 2)])
        ctx.config.update(part='A', address=address, outcomes=outcomes, script=script)
        attempts = []        # [kind, factory, connector, resolved]
        accepted = []
        servers = []

        def handler(kind, addr, factory):
            idx = len(attempts)
            c = Connector(idx)
            attempts.append({'kind': kind, 'factory': factory, 'connector': c, 'done': False,
                             'addr': addr})
            sim.log('connect-attempt', idx, kind)
            factory.doStart()
            factory.startedConnecting(c)
            return c
        ctx.reactor.connect_handler = handler

        d = sim.call(node, t_client.connect, ctx.reactor, address)
        obs = Obs(sim, 'connect').watch(d)
        hello_name = ':1.%d' % (1 + ds.choose(300))
        close_k = 1 + ds.choose(120)

        def resolve(i):
            a = attempts[i]
            a['done'] = True
            o = outcomes[i] if i < len(outcomes) else 'refuse'
            a['outcome'] = o
            if o != 'accept':
                sim.fault('connect-refuse' if o == 'refuse' else 'connect-late-fail')
                exc = {'refuse': tierror.ConnectionRefusedError(), 'late-fail': tierror.TimeoutError(),
                       'dns-fail': tierror.DNSLookupError('no such host'),
                       'odd-fail': OSError(13, 'Permission denied')}[o]
                sim.call(node, a['factory'].clientConnectionFailed, a['connector'], Failure(exc))
                return
            accepted.append(i)
            acc = list(MECHS)
            if script == 'reject-all':
                acc = []
            elif ds.flag(0.4):
                acc = [m for m in MECHS if ds.flag(0.5)] or [b'ANONYMOUS']
            srv = RefSaslServer(acc, agree_fd=not ds.flag(0.4), keyring=None, hello=hello_name)
            srv.close_after = close_k if script == 'close-after-k' else None
            servers.append(srv)
            if script in ('close-before-hello-reply', 'hello-error'):
                def on_msg(m, srv=srv):
                    if m.mtype == rc.METHOD_CALL and m.fields.get(rc.F_MEMBER) == 'Hello':
                        if script == 'hello-error':
                            srv.serial += 1
                            bodyless = ds.flag(0.4)
                            e = rc.Msg(rc.ERROR, srv.serial,
                                       {rc.F_REPLY_SERIAL: m.serial,
                                        rc.F_ERROR_NAME: 'org.freedesktop.DBus.Error.LimitsExceeded'},
                                       '' if bodyless else ds.pick(['s', 'is']),
                                       [] if bodyless else ['too many connections'])
                            if e.sig == 'is':
                                e.body = [7, 'too many connections']
                            srv.transport.write(e.encode())
                        else:
                            srv.transport.loseConnection()
                        return True
                    return False
                srv.on_message = on_msg
            if srv.close_after is not None:
                orig = srv.dataReceived

                def dr(data, srv=srv, orig=orig):
                    if len(srv.received) + len(data) >= srv.close_after:
                        srv.received += data
                        srv.transport.loseConnection()
                        return
                    orig(data)
                srv.dataReceived = dr
            proto = sim.call(node, a['factory'].buildProtocol, net.FakeAddress('srv'))
            conn = net.Connection(sim, 'k%d' % i, node, None, unix=(a['kind'] == 'unix'))
            a['conn'] = conn
            conn.attach(proto, srv)

        def extra():
            ops = []
            for i, a in enumerate(attempts):
                if not a['done']:
                    ops.append(('resolve%d' % i, lambda i=i: resolve(i)))
            faults = []
            for a in attempts:
                c = a.get('conn')
                if c is not None and c.a.state == net.OPEN and not c.a.broken:
                    def rst(c=c):
                        sim.fault('reset')
                        c.reset(keep_ab=ds.choose(len(c.pipes[0].buf) + 1),
                                keep_ba=ds.choose(len(c.pipes[1].buf) + 1))
                    faults.append(('reset', rst))
            return {'op': ops, 'fault': faults}

        def invariant():
            check_no_exceptions(sim, 'C09')
            if len(obs.fired) > 1:
                raise Violation('C09/connect-fired-twice', 'twice', 'connect() Deferred fired %d times'
                                % len(obs.fired))
            if len(attempts) > len(real):
                raise Violation('C09/attempt-count', 'too many', '%d attempts for %d usable addresses'
                                % (len(attempts), len(real)))
            for i, a in enumerate(attempts):
                if a['kind'] != real[i][0]:
                    raise Violation('C09/attempt-order', 'kind', 'attempt %d is %s, address list has %s'
                                    % (i, a['kind'], real[i][0]))
                want = expected_address(real[i][1])
                if want is not None and a['addr'] != want:
                    raise Violation('C09/attempt-address', 'entry %s after %s' % (
                        real[i][1].split('=')[0], real[i - 1][1].split('=')[0] if i else 'none'),
                        'attempt %d for address entry %r connects to %r, expected %r'
                        % (i, real[i][1], a['addr'], want))
            if accepted and len(attempts) > accepted[0] + 1:
                raise Violation('C09/attempt-after-reachable', 'later address tried',
                                'address %d was tried after address %d had been reachable'
                                % (len(attempts) - 1, accepted[0]))
            open_attempts = [a for a in attempts if not a['done']]
            if len(open_attempts) > 1:
                raise Violation('C09/attempt-order', 'concurrent', 'two addresses tried concurrently')

        invariant()
        sched = Scheduler(ctx)
        sched.run(400, extra, invariant)
        ok = sched.drain(300, extra, invariant)
        sim.advance(200.0)
        invariant()
        # ---- oracle --------------------------------------------------------------------
        res = obs.fired[0] if obs.fired else None
        kinds = tuple(a.get('outcome', '?') for a in attempts)
        sim.state(('A', kinds, script, res[0] if res else 'never'))
        if not real:
            sim.probe('A-no-address')
        elif not accepted:
            sim.probe('A-all-refused')
        elif accepted[0] > 0:
            sim.probe('A-second-address-used')
        if not ok or res is None:
            if not accepted:
                why = 'no address reachable'
            else:
                srv = servers[0]
                if not srv.begin_seen:
                    why = 'transport closed / authentication refused before BEGIN'
                    sim.probe('A-closed-during-auth')
                elif not any(getattr(m, 'mtype', 0) == 1 for m in srv.messages):
                    why = 'closed after authentication before Hello was read'
                else:
                    why = 'closed before the Hello reply'
            raise Violation('C09/connect-never-fires', why,
                            'connect(%r) never fired its Deferred: attempts %r, script %s, '
                            'faults %r; %s' % (address, kinds, script, dict(sim.faults), why))
        if res[0] == 'ok':
            p = res[1]
            if not accepted:
                raise Violation('C09/connected-without-endpoint', 'ok', 'connected with no reachable address')
            if p.busName != hello_name:
                raise Violation('C09/bus-name', 'busName', 'busName %r, Hello reply said %r'
                                % (p.busName, hello_name))
            sim.probe('A-connected')
        else:
            if accepted and script == 'good' and not sim.faults.get('reset'):
                srv = servers[0]
                if srv.accept & {b'EXTERNAL', b'ANONYMOUS'}:
                    raise Violation('C09/connect-failed-on-good-server', type(res[1].value).__name__,
                                    'first reachable address had a well-behaved server but connect() '
                                    'failed with %r' % (res[1].value,))
            if accepted:
                srv = servers[0]
                if script == 'hello-error':
                    sim.probe('A-hello-error')
                elif script == 'reject-all':
                    sim.probe('A-auth-refused')
                elif script == 'close-before-hello-reply':
                    sim.probe('A-closed-before-hello-reply')
    check_no_logged_errors(ctx, 'C09')


class CallbackBoom(Exception):
    pass


# =======================================================================================
SVC = 'org.sim.svc'


def part_b(ctx):
    ds, sim = ctx.ds, ctx.sim
    pre = ctx.preset
    rig = ClientRig(ctx, unix=ds.flag(0.3))
    cl = rig.proto
    daemon = rig.daemon
    sched = Scheduler(ctx)
    ctx.config.update(part='B')
    sink = []
    calls = []           # dicts: obs, dc, serial, replied
    conn_cbs = []        # dicts: fn, active, hits
    proxies = []         # dicts: kind, ref (strong ref or None), cbs:[{fn, active, hits}], obs
    descs = {}
    lost = [None]
    after_loss_firings = [0]
    budget = [2 + ds.choose(10)]
    loss_at = pre.get('loss_at')
    loss_kind = pre.get('loss_kind')
    reissue = ds.flag(0.15)

    # the service the proxies point at
    d1 = gen.interface(ds, 'org.sim.Alpha', rich=False, props=False)
    d2 = gen.interface(ds, 'org.sim.Beta', rich=False, props=False)
    paths = ['/obj/a', '/obj/b']

    # a second, independent connection held by the same process (session + system bus, say)
    rig2 = None
    other_cbs = []
    if ds.flag(0.4):
        sim.probe('B-second-connection')
        rig2 = ClientRig(ctx, name='c2', bus_name=':1.43')
        for k in range(1 + ds.choose(2)):
            rec2 = {'hits': [], 'active': True}
            rec2['fn'] = (lambda rec2: (lambda obj, reason: rec2['hits'].append((obj, reason))))(rec2)
            other_cbs.append(rec2)
            rig2.call(rig2.proto.notifyOnDisconnect, rec2['fn'])
        d_other = rig2.call(rig2.proto.callRemote, '/o', 'Other', interface='org.sim.Alpha',
                            destination=SVC, timeout=ds.pick([None, 10.0]))
        other_call = Obs(sim, 'other-call', []).watch(d_other)

    def on_msg(m):
        if m.mtype != rc.METHOD_CALL or m.fields.get(rc.F_DESTINATION) != SVC:
            return False
        if m.fields.get(rc.F_MEMBER) == 'Introspect':
            if ds.flag(0.8):
                daemon.method_return(m.serial, 's', [gen.node_xml(m.fields[rc.F_PATH], [d1, d2])],
                                     dest=rig.bus_name, sender=':1.9')
            return True
        # ordinary call: answer some
        for c in calls:
            if c['serial'] == m.serial:
                k = ds.weighted([6, 3, 1.5])
                if k == 1:
                    c['answered'] = True
                    daemon.method_return(m.serial, 'i', [c['id']], dest=rig.bus_name, sender=':1.9')
                elif k == 2:
                    # an error reply, with or without a body
                    c['answered'] = True
                    sig, body = ds.pick([('', []), ('s', ['no']), ('i', [5])])
                    daemon.error(m.serial, 'org.sim.Error.Nope', sig, body, dest=rig.bus_name,
                                 sender=':1.9')
                    sim.probe('B-call-answered-with-error')
        return True
    rig.handlers.append(on_msg)

    def mk_cb(rec, label):
        # some callbacks misbehave: what the others are owed does not depend on them
        boom = ds.weighted([8, 1, 0.5])

        def cb(obj, reason):
            rec['hits'].append((obj, reason))
            sim.log('dc-cb', label, type(reason.value).__name__)
            if lost[0] == 'settled':
                after_loss_firings[0] += 1
            if boom == 1:
                sim.probe('B-disconnect-callback-raises')
                raise CallbackBoom('disconnect callback %s fails' % label)
            if boom == 2:
                sim.probe('B-disconnect-callback-raises')
                raise SimCancelled('disconnect callback %s cancelled' % label)
            if slow:
                # clean-up "that takes a while": a Deferred nobody will ever fire
                sim.probe('B-disconnect-callback-returns-a-deferred')
                return defer.Deferred()
        slow = ds.flag(0.08)
        form = ds.weighted([7, 1.5])
        if form == 1:
            # the usual way to bind context: a callable that has no __name__
            return functools.partial(cb)
        return cb

    def op_call():
        cid = len(calls)
        kw = {}
        if ds.flag(0.5):
            kw['timeout'] = ds.pick([5.0, 1.0, 30.0])
        before = set(id(t) for t in sim.timers)
        nsent = len(rig.sent)
        d = rig.call(cl.callRemote, '/obj/a', 'M%d' % cid, interface='org.sim.Alpha',
                     destination=SVC, **kw)
        c = {'id': cid, 'obs': Obs(sim, 'call%d' % cid, sink), 'answered': False,
             'serial': rig.sent[-1].serial if len(rig.sent) > nsent else None,
             'dc': ([t for t in sim.timers if id(t) not in before] or [None])[0]}
        if reissue and ds.flag(0.5):
            def eb(f, c=c):
                # user code reacting to the failure by issuing another call
                sim.probe('B-errback-issues-call')
                d2_ = rig.call(cl.callRemote, '/obj/a', 'Retry', interface='org.sim.Alpha',
                               destination=SVC)
                d2_.addErrback(lambda _f: None)
                return f
            d.addErrback(eb)
        c['obs'].watch(d)
        c['d'] = d
        calls.append(c)
        sim.log('op', 'call', cid, sorted(kw))

    def op_cancel_call():
        # the owner of an outstanding call gives up on it; the loss that follows still has to
        # clean up after it (its deadline) without telling it anything again
        live = [c for c in calls if not c['obs'].fired and not c.get('cancelled')]
        if not live:
            return op_call()
        c = live[ds.choose(len(live))]
        c['cancelled'] = True
        sim.probe('B-call-cancelled-by-its-owner')
        sim.log('op', 'cancel-call', c['id'])
        rig.call(c['d'].cancel)

    class Holder:
        def __init__(self, rec, label):
            self.rec, self.label = rec, label

        def on_lost(self, obj, reason):
            self.rec['hits'].append((obj, reason))
            sim.log('dc-cb', self.label, type(reason.value).__name__)
            if lost[0] == 'settled':
                after_loss_firings[0] += 1

    late_calls = []

    def op_conn_cb():
        rec = {'hits': [], 'active': True, 'want': 1}
        k = ds.weighted([4, 2, 1, 1])
        if k == 1:
            # a bound method: every attribute access yields a new, equal object
            h = Holder(rec, 'conn%d' % len(conn_cbs))
            rec['holder'] = h
            rec['fn'] = h.on_lost
            sim.probe('B-bound-method-callback')
            rig.call(cl.notifyOnDisconnect, h.on_lost)
        elif k == 2:
            # the same callable registered twice
            rec['fn'] = mk_cb(rec, 'conn%d' % len(conn_cbs))
            rec['want'] = 2
            sim.probe('B-callback-registered-twice')
            rig.call(cl.notifyOnDisconnect, rec['fn'])
            rig.call(cl.notifyOnDisconnect, rec['fn'])
        elif k == 3:
            # a callback that reacts to the loss by issuing a call with a deadline
            base = mk_cb(rec, 'conn%d' % len(conn_cbs))

            def fn(obj, reason, base=base):
                base(obj, reason)
                sim.probe('B-callback-issues-call')
                d2_ = rig.call(cl.callRemote, '/obj/a', 'FromCallback', interface='org.sim.Alpha',
                               destination=SVC, timeout=3.0)
                late_calls.append(Obs(sim, 'late-call', []).watch(d2_))
            rec['fn'] = fn
            rig.call(cl.notifyOnDisconnect, fn)
        else:
            rec['fn'] = mk_cb(rec, 'conn%d' % len(conn_cbs))
            rig.call(cl.notifyOnDisconnect, rec['fn'])
        conn_cbs.append(rec)
        sim.log('op', 'notifyOnDisconnect', k)

    def op_cancel_conn_cb():
        act = [r for r in conn_cbs if r['active']]
        if act:
            r = act[ds.choose(len(act))]
            r['want'] -= 1
            if r['want'] <= 0:
                r['active'] = False
            # (for a bound method a fresh, equal method object is passed)
            rig.call(cl.cancelNotifyOnDisconnect, r['holder'].on_lost if 'holder' in r else r['fn'])
            sim.probe('B-callback-cancelled')
            sim.log('op', 'cancelNotifyOnDisconnect')

    def op_proxy():
        kind = ds.pickw([('explicit', 3), ('introspect', 3), ('by-name', 2), ('explicit-list', 1)])
        path = ds.pick(paths)
        p = {'kind': kind, 'ref': None, 'cbs': [], 'path': path, 'failed': False}
        proxies.append(p)
        idx = len(proxies) - 1

        def got(prox):
            p['ref'] = prox
            for _ in range(1 + ds.choose(2)):
                rec = {'hits': [], 'active': True}
                if ds.flag(0.35):
                    # a bound method: the method object handed over is a temporary
                    h = Holder(rec, 'proxy%d' % idx)
                    rec['holder'] = h
                    rec['fn'] = h.on_lost
                    sim.probe('B-bound-method-callback')
                    prox.notifyOnDisconnect(h.on_lost)
                else:
                    rec['fn'] = mk_cb(rec, 'proxy%d' % idx)
                    prox.notifyOnDisconnect(rec['fn'])
                p['cbs'].append(rec)
            if ds.flag(0.2) and p['cbs']:
                r = p['cbs'][0]
                r['active'] = False
                prox.cancelNotifyOnDisconnect(r['holder'].on_lost if 'holder' in r else r['fn'])
                sim.probe('B-callback-cancelled')
            return None

        def bad(f):
            p['failed'] = True
            sim.log('proxy-failed', idx, type(f.value).__name__)
            return None

        def run():
            if kind == 'explicit':
                ifs = gen.tx_interface(d1, register=False)
            elif kind == 'explicit-list':
                ifs = [gen.tx_interface(d1, register=False), gen.tx_interface(d2, register=False)]
            elif kind == 'by-name':
                if 'org.sim.Alpha' not in descs:
                    descs['org.sim.Alpha'] = gen.tx_interface(d1, register=True)
                ifs = 'org.sim.Alpha'
            else:
                ifs = None
            try:
                d = cl.getRemoteObject(SVC, path, ifs)
            except Exception as e:
                raise Violation('C09/get-remote-object-raised', exc_key(e),
                                'getRemoteObject(%s) raised %r' % (kind, e))
            d.addCallbacks(got, bad)
        rig.call(run)
        sim.probe({'explicit': 'B-proxy-explicit', 'explicit-list': 'B-proxy-explicit',
                   'by-name': 'B-proxy-by-name', 'introspect': 'B-proxy-introspected'}[kind])
        sim.log('op', 'proxy', kind, path)

    def op_drop_proxy():
        live = [p for p in proxies if p['ref'] is not None and not p.get('dropped')]
        if live:
            p = live[ds.choose(len(live))]
            p['dropped'] = True
            p['ref'] = None
            sim.probe('B-proxy-dropped')
            sim.log('op', 'drop-proxy')

    def op_proxy_cb():
        # later registrations and cancellations on a proxy that already exists (also: every
        # callback cancelled, then a new one registered)
        live = [(i, p) for i, p in enumerate(proxies) if p['ref'] is not None and not p.get('dropped')]
        if not live:
            return op_proxy()
        idx, p = live[ds.choose(len(live))]
        prox = p['ref']
        act = [r for r in p['cbs'] if r['active']]
        what = ds.pickw([('add', 3), ('cancel', 2), ('cancel-all-then-add', 2)])
        sim.log('op', 'proxy-cb', idx, what)

        def cancel(r):
            r['active'] = False
            rig.call(prox.cancelNotifyOnDisconnect, r['holder'].on_lost if 'holder' in r else r['fn'])
            sim.probe('B-callback-cancelled')
        if what == 'cancel' and act:
            cancel(act[ds.choose(len(act))])
            return
        if what == 'cancel-all-then-add':
            for r in act:
                cancel(r)
            sim.probe('B-all-callbacks-cancelled-then-new-one')
        rec = {'hits': [], 'active': True}
        rec['fn'] = mk_cb(rec, 'proxy%d' % idx)
        rig.call(prox.notifyOnDisconnect, rec['fn'])
        p['cbs'].append(rec)

    OPS = [(op_call, 5), (op_conn_cb, 2), (op_cancel_conn_cb, 1), (op_proxy, 4), (op_drop_proxy, 0.7),
           (op_proxy_cb, 1.5), (op_cancel_call, 0.8)]

    def do_loss(kind=None):
        kind = kind or ds.pick(['daemon-close', 'client-disconnect', 'reset'])
        lost[0] = kind
        sim.log('fault', kind)
        if kind == 'reset':
            sim.fault('reset')
            sim.probe('B-reset')
            rig.conn.reset(keep_ab=ds.choose(len(rig.conn.pipes[0].buf) + 1),
                           keep_ba=ds.choose(len(rig.conn.pipes[1].buf) + 1))
        elif kind == 'client-disconnect':
            sim.fault('close')
            sim.probe('B-client-disconnect')
            rig.call(cl.disconnect)
        else:
            sim.fault('close')
            daemon.transport.loseConnection()

    def extra():
        ops = []
        if budget[0] > 0 and lost[0] is None:
            def op():
                budget[0] -= 1
                OPS[ds.weighted([w for _, w in OPS])][0]()
            ops.append(('op', op))
        faults = []
        if lost[0] is None and loss_at is None and sim.step > 2:
            faults.append(('loss', do_loss))
        return {'op': ops, 'fault': faults}

    def invariant():
        check_no_exceptions(sim, 'C09')
        rig.check_wire('C09')
        if loss_at is not None and lost[0] is None and sim.step >= loss_at:
            do_loss(loss_kind)

    sched.run(200, extra, invariant)
    if lost[0] is None:
        do_loss(loss_kind)
    budget[0] = 0
    ok = sched.drain(300, None, invariant, fire_timers=False)
    check_no_exceptions(sim, 'C09')
    if rig.conn.a.state != net.LOST:
        raise Violation('C09/harness', 'client not lost', 'client never saw the loss')
    # snapshot at the instant after the loss was delivered
    pend_at_loss = [c for c in calls if not c['obs'].fired or
                    (c['obs'].fired and c['obs'].fired[0][0] == 'err' and
                     c['obs'].fired[0][1].check(tierror.ConnectionDone, tierror.ConnectionLost))]
    if any(c for c in pend_at_loss):
        sim.probe('B-loss-with-pending-calls')
    if any(c['dc'] is not None for c in pend_at_loss):
        sim.probe('B-loss-with-deadline')
    # ---- oracle --------------------------------------------------------------------
    for c in calls:
        n = len(c['obs'].fired)
        if n == 0:
            raise Violation('C09/call-not-failed', 'pending after loss',
                            'call %d still pending after the connection was lost (deadline: %s)'
                            % (c['id'], c['dc'] is not None))
        if n > 1:
            raise Violation('C09/call-fired-twice', 'twice', 'call %d fired %d times' % (c['id'], n))
        kind, val = c['obs'].fired[0]
        if c.get('cancelled') and kind == 'err' and val.check(defer.CancelledError):
            pass        # completed by its owner; the loss owed it nothing more
        elif kind == 'err' and not val.check(tierror.ConnectionDone, tierror.ConnectionLost,
                                             t_error.TimeOut, t_error.RemoteError):
            raise Violation('C09/call-wrong-failure', type(val.value).__name__,
                            'call %d failed with %r' % (c['id'], val.value))
        if c['dc'] is not None and c['dc'].active():
            raise Violation('C09/timer-survives', 'deadline active after loss',
                            'deadline of call %d still active after the loss' % c['id'])
    if sim.pending_timers():
        raise Violation('C09/timer-survives', 'timer left', '%d timers pending after the loss'
                        % len(sim.pending_timers()))
    for i, r in enumerate(conn_cbs):
        want = r['want'] if r['active'] else 0
        if len(r['hits']) != want:
            raise Violation('C09/conn-callback', 'ran %d times, expected %d' % (len(r['hits']), want),
                            'connection disconnect callback %d (active=%s) ran %d times'
                            % (i, r['active'], len(r['hits'])))
        for obj, reason in r['hits']:
            if obj is not cl:
                raise Violation('C09/conn-callback', 'wrong argument', 'callback got %r' % (obj,))
    seen = {}
    for i, p in enumerate(proxies):
        if p['ref'] is not None:
            key = (p['path'], p['kind'] == 'introspect')
            seen[key] = seen.get(key, 0) + 1
            if seen[key] > 1 or sum(1 for q in proxies if q['ref'] is not None and q['path'] == p['path']) > 1:
                sim.probe('B-two-proxies-same-object')
        if p['ref'] is None and not p.get('dropped') and not p['failed']:
            sim.probe('B-introspection-in-flight-at-loss')
            raise Violation('C09/proxy-request-not-failed', p['kind'],
                            'getRemoteObject (%s) neither produced a proxy nor failed' % p['kind'])
        if p.get('dropped'):
            continue
        for r in p['cbs']:
            want = 1 if r['active'] else 0
            if len(r['hits']) != want:
                raise Violation('C09/proxy-callback',
                                '%s proxy: ran %d times, expected %d' % (p['kind'], len(r['hits']), want),
                                'disconnect callback of live %s proxy %d for %s (active=%s) ran %d '
                                'times' % (p['kind'], i, p['path'], r['active'], len(r['hits'])))
            for obj, reason in r['hits']:
                if obj is not p['ref']:
                    raise Violation('C09/proxy-callback', 'wrong argument', 'callback got %r' % (obj,))
    if any(p['failed'] for p in proxies):
        sim.probe('B-introspection-in-flight-at-loss')
    # the other connection of the process is untouched by this loss ...
    if rig2 is not None:
        for r in other_cbs:
            if r['hits']:
                raise Violation('C09/other-connection', 'callback of another connection ran',
                                'losing one connection ran a disconnect callback registered on '
                                'another connection of the same process')
        if other_call.fired and not (other_call.fired[0][0] == 'err' and
                                     other_call.fired[0][1].check(t_error.TimeOut)):
            raise Violation('C09/other-connection', 'call of another connection failed',
                            'losing one connection completed a call pending on another: %r'
                            % (other_call.fired,))
        nhits = [len(r['hits']) for r in conn_cbs]
        # ... and when it is lost in turn, only its own callbacks and calls are concerned
        rig2.daemon.transport.loseConnection()
        sched.drain(100, None, None, fire_timers=False)
        check_no_exceptions(sim, 'C09')
        for r in other_cbs:
            if len(r['hits']) != 1 or r['hits'][0][0] is not rig2.proto:
                raise Violation('C09/conn-callback', 'second connection: ran %d times' % len(r['hits']),
                                'disconnect callback of the second connection ran %d times'
                                % len(r['hits']))
        if [len(r['hits']) for r in conn_cbs] != nhits:
            raise Violation('C09/other-connection', 'callback of the first connection ran again',
                            'losing the second connection ran callbacks of the first one again')
        if len(other_call.fired) != 1:
            raise Violation('C09/call-not-failed', 'second connection',
                            'call pending on the second connection fired %d times' % len(other_call.fired))
    # nothing fires afterwards
    lost_mark = lost[0]
    lost[0] = 'settled'
    nfired = sum(len(c['obs'].fired) for c in calls)
    sim.advance(200.0)
    sched.drain(50, None, None)
    check_no_exceptions(sim, 'C09')
    if after_loss_firings[0] or sum(len(c['obs'].fired) for c in calls) != nfired:
        raise Violation('C09/fires-after-loss', 'late firing', 'something fired after the loss settled')
    for o in late_calls:
        # issued while the loss was being delivered: it may fail with the loss reason at once or
        # stay pending for ever; what it must not do is fire a deadline on a dead connection
        if o.fired and o.fired[0][0] == 'err' and o.fired[0][1].check(t_error.TimeOut):
            raise Violation('C09/fires-after-loss', 'deadline of a call issued by a disconnect callback',
                            'a call issued from a disconnect callback timed out long after the '
                            'connection was lost')
    check_no_logged_errors(ctx, 'C09', allow=(CallbackBoom, SimCancelled))
    sim.state(('B', min(len(pend_at_loss), 4), len(conn_cbs),
               tuple(sorted(set(p['kind'] for p in proxies))), lost_mark))


def scenario(ctx):
    part = ctx.preset.get('part') or ctx.ds.pick(['B', 'A'])
    if part == 'A':
        part_a(ctx)
    else:
        part_b(ctx)


def sweep(tier):
    """Part B histories with the loss injected at every step index (fault enumeration)"""
    out = []
    nh = 10 if tier == 'quick' else 40
    for kind in ('daemon-close', 'client-disconnect', 'reset'):
        for at in range(3, 40):
            for rep in range(nh // 5 or 1):
                out.append({'part': 'B', 'loss_at': at, 'loss_kind': kind})
    return [('loss after step k of seeded histories, k=3..39 x 3 loss kinds', out)]
