"""
C04 - message framing is independent of how the byte stream is split into reads.

System: the real BasicDBusProtocol framing code with the real authenticators, in client
role (tcp-like and UNIX transport) and in server role, plus DBusClientConnection itself.
Schedule space: the partition of (handshake tail + messages) into reads.
Oracle: frames handed to rawDBusMessageReceived == frames sent, byte for byte, once, in
order; typed callbacks see the reference-decoded content; nothing raises; nothing is left.
"""
from simdbus import gen, net, refcodec as rc
from simdbus.kernel import DecisionStream, Node, Violation
from simdbus.peers import DumbPeer
from simdbus.sched import Scheduler

import txdbus.protocol as tp
from txdbus import authentication, client

PROPERTY = 'C04'
LEVEL = 'exploration'
QUICK_RUNS = 4000
QUICK_BUDGET_S = 120
THOROUGH_BUDGET_S = 600
RULE = ('random message sequences (all 4 types, both byte orders, random header-field '
        'order, unknown fields, bodies containing CR LF) x seeded partitions of the stream '
        'into reads; plus a deterministic sweep of every single and double cut position of '
        'seeded short streams and of the handshake/message join')
STATE_MEASURE = 'distinct (role, boundary-class multiset, messages-per-read profile) tuples'
PROBES = ['cut-in-fixed-header', 'cut-in-handshake-line', 'join-handshake-and-message',
          'many-messages-one-read', 'crlf-in-binary', 'big-endian-message', 'one-byte-reads', 'neighbour-connection-interleaved',
          'neighbour-lost-mid-stream', 'neighbour-poisoned',
          'handler-changes-received-body', 'handler-hangs-up']
COMPONENTS = {
    'real': ['txdbus.protocol.BasicDBusProtocol.dataReceived/rawDBusMessageReceived',
             'txdbus.authentication.ClientAuthenticator', 'txdbus.authentication.BusAuthenticator',
             'txdbus.message.parseMessage', 'txdbus.marshal.unmarshal',
             'txdbus.client.DBusClientConnection (one role)'],
    'stub': ['transport (SimTransport)', 'sender (reference-encoded scripted stream)'],
}
ASSUMPTIONS = [
    'the stream is reliable and ordered (TCP/UNIX stream socket); only segmentation varies',
    'reads are never empty',
    'the scripted sender emits the whole stream without waiting for the handshake replies; '
    'the receiver cannot tell the difference from a pipelining peer',
]

ROLES = ('server', 'client-tcp', 'client-unix', 'client-conn')


class _Bus:
    uuid = b'00112233445566778899aabbccddeeff'


class _Factory:
    bus = _Bus()

    def _ok(self, p):
        pass

    def _failed(self, e):
        pass


def make_receiver(role, record):
    if role == 'client-conn':
        base = client.DBusClientConnection
    else:
        base = tp.BasicDBusProtocol

    class Rec(base):
        def rawDBusMessageReceived(self, raw):
            record['raw'].append(bytes(raw))
            base.rawDBusMessageReceived(self, raw)

        def _typed(self, mt, m):
            record['typed'].append((mt, m))
            if record.get('on_typed'):
                record['on_typed'](self, len(record['typed']) - 1, mt, m)

        def methodCallReceived(self, m):
            self._typed(1, m)
            base.methodCallReceived(self, m)

        def methodReturnReceived(self, m):
            self._typed(2, m)
            base.methodReturnReceived(self, m)

        def errorReceived(self, m):
            self._typed(3, m)
            base.errorReceived(self, m)

        def signalReceived(self, m):
            self._typed(4, m)
            base.signalReceived(self, m)

    p = Rec()
    p.factory = _Factory()
    if role == 'server':
        p._client = False
        p.authenticator = authentication.BusAuthenticator
    else:
        p._client = True
        p.authenticator = authentication.ClientAuthenticator
    return p


def handshake(role):
    if role == 'server':
        return [b'\0', b'AUTH ANONYMOUS\r\n', b'BEGIN\r\n']
    if role == 'client-unix':
        return [b'OK 0123456789abcdef\r\n', b'AGREE_UNIX_FD\r\n']
    return [b'OK 0123456789abcdef\r\n']


def build_stream(ds, role, kind, tier='quick'):
    """returns (list of handshake writes, list of reference messages)"""
    msgs = []
    if kind == 'flood':
        n = 1200 + ds.choose(2500)
        for i in range(n):
            m = rc.Msg(rc.METHOD_RETURN, 1 + i, {rc.F_REPLY_SERIAL: 7 + i},
                       little=not ds.flag(0.1))
            m.encode()
            msgs.append(m)
        return handshake(role), msgs
    n = 1 + ds.geometric(11, 0.25) if kind == 'short' else 1 + ds.choose(40 * (4 if tier == 'thorough' else 1))
    serial = 1 + ds.choose(2**31)
    for i in range(n):
        if ds.flag(0.08):
            # serial / lengths whose bytes are 0D 0A
            serial = ds.pick([0x0A0D, 0x0D0A0D0A, 0x0A0D0000])
        m = gen.random_message(ds, serial, maxsig=2 if kind == 'short' else 3)
        if ds.flag(0.04) and kind != 'short':
            m = rc.Msg(rc.SIGNAL, serial, {rc.F_PATH: '/big', rc.F_INTERFACE: 'org.sim.Big',
                                          rc.F_MEMBER: 'Blob'}, 'ay',
                       [[(j * 7) & 0xff for j in range(2000 + ds.choose(60000))]])
            m.encode()
        msgs.append(m)
        if ds.flag(0.08):
            msgs.append(m)           # the very same bytes once more (a repeated payload)
        serial = (serial % (2**32 - 2)) + 1
    return handshake(role), msgs


def fieldval(m, name):
    return getattr(m, name, None)


def check_typed(idx, ref, mt, m):
    """typed callback content against the reference message"""
    if mt != ref.mtype:
        raise Violation('C04/content', 'type', 'message %d delivered as type %r, sent %r'
                        % (idx, mt, ref.mtype))
    if m.serial != ref.serial:
        raise Violation('C04/content', 'serial', 'message %d serial %r != %r'
                        % (idx, m.serial, ref.serial))
    for code, name in rc.FIELD_NAME.items():
        if name in ('signature', 'unix_fds'):
            continue
        want = ref.fields.get(code)
        got = fieldval(m, name)
        if want is None:
            continue
        if got != want:
            raise Violation('C04/content', 'field-' + name,
                            'message %d field %s: got %r want %r' % (idx, name, got, want))
    want_sig = ref.sig or None
    got_sig = getattr(m, 'signature', None) or None
    if want_sig != got_sig:
        raise Violation('C04/content', 'signature', 'message %d signature %r != %r'
                        % (idx, got_sig, want_sig))
    if ref.sig:
        want = rc.canon(rc.plain_body(ref.sig, ref.body))
        got = rc.canon(m.body)
        if want != got:
            raise Violation('C04/content', 'body', 'message %d body differs: got %r want %r'
                            % (idx, m.body, rc.plain_body(ref.sig, ref.body)))


from simdbus.harness import exc_key  # noqa: E402


def scenario(ctx):
    ds, sim = ctx.ds, ctx.sim
    pre = ctx.preset
    if 'stream_seed' in pre:
        sds = DecisionStream(seed=pre['stream_seed'])
        role = ROLES[pre['role']]
        kind = 'short'
    else:
        sds = ds
        role = ROLES[ds.choose(len(ROLES))]
        kind = ds.pickw([('normal', 10), ('short', 6), ('flood', 0.12)])
    ctx.config.update(role=role, kind=kind)
    ctx.seams.set_linux(False)
    hs, msgs = build_stream(sds, role, kind, ctx.tier)
    record = {'raw': [], 'typed': []}
    node = Node('rx', serial_start=1 + sds.choose(2**31))
    proto = make_receiver(role, record)
    peer = DumbPeer('tx')
    conn = net.Connection(sim, 'c', node, None, unix=(role == 'client-unix'))
    conn.attach(proto, peer)
    tx = conn.b
    for h in hs:
        tx.write(h)
    hs_len = sum(len(h) for h in hs)
    for m in msgs:
        tx.write(m.raw)
    pipe = conn.pipes[1]       # b>a : sender to receiver
    back = conn.pipes[0]
    total = pipe.total
    ctx.config.update(nmsgs=len(msgs), stream_len=total)
    if any(b'\r\n' in m.raw for m in msgs):
        sim.probe('crlf-in-binary')
    if any(not m.little for m in msgs):
        sim.probe('big-endian-message')

    def note_cut(pos):
        """pos = absolute stream offset at which a read ended"""
        if pos < hs_len:
            sim.probe('cut-in-handshake-line')
        else:
            off = hs_len
            for m in msgs:
                if off < pos < off + 16:
                    sim.probe('cut-in-fixed-header')
                    break
                off += len(m.raw)
                if off >= pos:
                    break

    def one_read(n):
        before = pipe.base
        nraw = len(record['raw'])
        if before < hs_len < before + n:
            sim.probe('join-handshake-and-message')
        err = net.deliver(sim, pipe, n)
        if pipe.buf:
            note_cut(pipe.base)
        if len(record['raw']) - nraw >= 900:
            sim.probe('many-messages-one-read')
        if back.buf:
            net.deliver(sim, back, len(back.buf))
        return err

    err = None
    if 'cuts' in pre:
        cuts = sorted(set(c for c in pre['cuts'] if 0 < c < total))
        sim.nontrivial = True
        last = 0
        for c in cuts + [total]:
            sim.sched('d', c - last)
            err = one_read(c - last)
            last = c
            if err is not None or proto.transport.state != net.OPEN:
                break
        sim.state((role, len(cuts)))
    else:
        mode = ds.weighted([5, 1, 1, 1])
        sizew = [[6, 2, 1, 2, 1, 1, 1, 1], [1, 0, 0, 0, 0, 0, 0, 0],
                 [0, 0, 1, 0, 0, 0, 0, 0], [1, 3, 0.3, 3, 3, 3, 2, 1]][mode]
        if mode == 2 and total > 30000:
            mode, sizew = 0, [6, 2, 1, 2, 1, 1, 1, 1]     # one-byte reads only for modest streams
        if mode == 2:
            sim.probe('one-byte-reads')
        # user code in the handlers: it may change what it was handed (the next message is owed
        # its own content all the same) and it may hang up (what the same read still holds was
        # received and is delivered)
        meddle = ds.flag(0.3)
        hang_at = ds.choose(len(msgs)) if kind != 'flood' and ds.flag(0.1) else None
        checked = set()

        def scramble(v):
            if isinstance(v, list):
                for x in v:
                    scramble(x)
                v.append('meddled')
            elif isinstance(v, dict):
                for x in list(v.values()):
                    scramble(x)
                v['meddled'] = 1

        def on_typed(p, idx, mt, m):
            if idx < len(msgs):
                check_typed(idx, msgs[idx], mt, m)
                checked.add(idx)
            if meddle and m.body:
                sim.probe('handler-changes-received-body')
                scramble(m.body)
            if idx == hang_at:
                sim.probe('handler-hangs-up')
                hung[0] = True
                p.transport.loseConnection()
        hung = [False]
        if meddle or hang_at is not None:
            record['on_typed'] = on_typed
        classes = []
        steps = 0
        # a neighbour: another connection of the same process receives its own stream, its reads
        # interleaved with ours; it may be lost in the middle of a message
        nb = None
        if kind != 'flood' and ds.flag(0.3):
            sim.probe('neighbour-connection-interleaved')
            hs2, msgs2 = build_stream(ds, role, 'short', ctx.tier)
            rec2 = {'raw': [], 'typed': []}
            proto2 = make_receiver(role, rec2)
            conn2 = net.Connection(sim, 'n', node, None, unix=(role == 'client-unix'))
            conn2.attach(proto2, DumbPeer('tx2'))
            for h in hs2:
                conn2.b.write(h)
            # the neighbour's stream may hold a message that cannot be decoded (it costs the
            # neighbour its connection; what followed it in the same read concerns nobody else)
            poison_at = ds.choose(len(msgs2)) if len(msgs2) > 1 and ds.flag(0.4) else None
            for i2, m in enumerate(msgs2):
                if i2 == poison_at:
                    raw = bytearray(m.raw)
                    raw[1] = 9
                    conn2.b.write(bytes(raw))
                    sim.probe('neighbour-poisoned')
                else:
                    conn2.b.write(m.raw)
            nb = {'pipe': conn2.pipes[1], 'back': conn2.pipes[0], 'proto': proto2, 'rec': rec2,
                  'msgs': msgs2, 'conn': conn2, 'lost': False, 'poisoned': poison_at is not None,
                  'lose_at': ds.choose(conn2.pipes[1].total) if ds.flag(0.3) else None}

        def neighbour_read(everything=False):
            p2 = nb['pipe']
            while p2.buf and nb['proto'].transport.state == net.OPEN and not nb['lost']:
                n2 = len(p2.buf) if (everything and nb['lose_at'] is None) or (nb['poisoned'] and ds.flag(0.5)) \
                    else 1 + ds.choose(min(len(p2.buf), 40))
                if nb['lose_at'] is not None and p2.base + n2 >= nb['lose_at']:
                    # lost with a message half received
                    n2 = max(1, nb['lose_at'] - p2.base)
                    e2 = net.deliver(sim, p2, min(n2, len(p2.buf)))
                    nb['lost'] = True
                    sim.probe('neighbour-lost-mid-stream')
                    nb['conn'].reset()
                    for t in net.losable(sim):
                        t.do_lose()
                else:
                    e2 = net.deliver(sim, p2, n2)
                if e2 is not None and nb['poisoned']:
                    nb['lost'] = True
                    for t in net.losable(sim):
                        t.do_lose()
                    break
                if e2 is not None:
                    raise Violation('C04/exception', exc_key(e2), 'exception escaped dataReceived of '
                                    'the neighbour connection: %r' % (e2,))
                if nb['back'].buf and not nb['lost']:
                    net.deliver(sim, nb['back'], len(nb['back'].buf))
                if not everything:
                    break
        while pipe.buf and proto.transport.state == net.OPEN:
            steps += 1
            if nb is not None and ds.flag(0.4):
                neighbour_read()
            n, bc = net.chunk_size(ds, pipe, sizew)
            if bc != 'all':
                sim.nontrivial = True
                sim.faults['split'] += 1
            else:
                sim.faults['coalesce'] += 1
            classes.append(bc)
            sim.sched('d', bc)
            err = one_read(n)
            if err is not None:
                break
        sim.step = steps
        sim.state((role, tuple(sorted(set(classes))), min(steps, 50) // 5))
        if nb is not None and err is None:
            neighbour_read(everything=True)
            if not nb['lost'] and not nb['poisoned']:
                if nb['proto'].transport.state != net.OPEN or nb['rec']['raw'] != [m.raw for m in nb['msgs']]:
                    raise Violation('C04/sequence', 'neighbour',
                                    'the neighbour connection got %d of its %d messages intact'
                                    % (len(nb['rec']['raw']), len(nb['msgs'])))

    # ---- oracle -------------------------------------------------------------------
    if err is not None:
        raise Violation('C04/exception', exc_key(err),
                        'exception escaped dataReceived after %d of %d messages: %r'
                        % (len(record['raw']), len(msgs), err))
    hung_up = 'cuts' not in pre and hung[0]
    if hung_up:
        # everything received up to and including the read in which the handler hung up
        off, n_exp = hs_len, 0
        for m in msgs:
            off += len(m.raw)
            if off <= pipe.base:
                n_exp += 1
        msgs = msgs[:n_exp]
    elif proto.transport.state != net.OPEN:
        raise Violation('C04/closed', 'receiver closed the connection',
                        'receiver closed the connection after %d of %d messages'
                        % (len(record['raw']), len(msgs)))
    sent = [m.raw for m in msgs]
    got = record['raw']
    if got != sent:
        n = 0
        while n < min(len(got), len(sent)) and got[n] == sent[n]:
            n += 1
        if len(got) < len(sent) and got == sent[:len(got)]:
            raise Violation('C04/sequence', 'missing',
                            'only %d of %d messages delivered (buffer holds %d bytes)'
                            % (len(got), len(sent), len(getattr(proto, '_buffer', b''))))
        raise Violation('C04/sequence', 'differs',
                        'frame %d differs or is extra: delivered %d frames, sent %d'
                        % (n, len(got), len(sent)))
    if len(record['typed']) != len(msgs):
        raise Violation('C04/sequence', 'typed-count',
                        '%d typed callbacks for %d messages' % (len(record['typed']), len(msgs)))
    for i, (ref, (mt, m)) in enumerate(zip(msgs, record['typed'])):
        if 'cuts' in pre or i not in checked:
            check_typed(i, ref, mt, m)
    if getattr(proto, '_buffer', b'') and not hung_up:
        raise Violation('C04/residual', 'buffer', '%d bytes left in the framing buffer'
                        % len(getattr(proto, '_buffer', b'')))


def sweep(tier):
    """every single and double cut of seeded short streams, per role"""
    out = []
    nstreams = 3 if tier == 'quick' else 8
    single, double = [], []
    for role in range(3):
        for k in range(nstreams):
            seed = 1000 * role + k
            # stream length is needed to enumerate: generate once here
            sds = DecisionStream(seed=seed)
            hs, msgs = build_stream(sds, ROLES[role], 'short')
            total = sum(len(h) for h in hs) + sum(len(m.raw) for m in msgs)
            if total > 420:
                total = 420      # cap the quadratic part: cuts within the first 420 bytes
            for i in range(1, total):
                single.append({'stream_seed': seed, 'role': role, 'cuts': [i]})
            lim = total if tier != 'quick' else min(total, 130)
            for i in range(1, lim):
                for j in range(i + 1, lim):
                    double.append({'stream_seed': seed, 'role': role, 'cuts': [i, j]})
    return [('single-cut', single), ('double-cut', double)]
