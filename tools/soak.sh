#!/bin/bash
# soak: every check's quick tier under several seeds; prints one line per (check, seed)
# usage: tools/soak.sh <first-seed> <last-seed> [checks...]
lo=$1; hi=$2; shift 2
checks=${@:-C04 C05 C06 C07 C08 C09 C10 C11 C12 C13 C14 C16 C17 C20}
for sd in $(seq $lo $hi); do
  for p in $checks; do
    out=$(VERIF_SEED=$sd ./check $p quick 2>&1); rc=$?
    echo "seed=$sd $p rc=$rc $(echo "$out" | grep -c '^VIOLATION') violations; $(echo "$out" | tail -1 | cut -c1-90)"
    if [ $rc -ne 0 ]; then echo "$out" | grep '^violation\|HARNESS' | cut -c1-400; fi
  done
done
