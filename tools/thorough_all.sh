#!/bin/bash
# every check's thorough tier with the given budget (seconds) and seed; one summary line each
b=${1:-150}; sd=${2:-0}
for p in C04 C05 C06 C07 C08 C09 C10 C11 C12 C13 C14 C16 C17 C20; do
  out=$(VERIF_SEED=$sd VERIF_BUDGET_S=$b ./check $p thorough 2>&1); rc=$?
  echo "seed=$sd $p rc=$rc $(echo "$out" | tail -1 | cut -c1-120)"
  if [ $rc -ne 0 ]; then echo "$out" | grep '^violation\|HARNESS' | cut -c1-500; fi
done
