#!/venv/bin/python
"""Regenerates /verif/mutants/*.patch from the catalogue below against /repo's current tree.
Each mutant is a small semantic change that still imports and leaves the existing test suite's
result unchanged (checked by --verify), and breaks one property."""
import difflib
import os
import subprocess
import sys

REPO = '/repo'
OUT = '/verif/mutants'

# (name, properties, tier, file, old, new, comment)
CAT = [
    ('m_c09_disconnect_callback_unprotected', 'C09', 'quick', 'txdbus/client.py',
     "            try:\n                cb(self, reason)\n            except BaseException:\n                log.err()\n",
     "            cb(self, reason)\n",
     'a raising disconnect callback aborts connectionLost: calls stay pending, the rest is not told (the original defect)'),
    ('m_c08_serial_never_wraps', 'C08', 'quick', 'txdbus/message.py',
     "            if DBusMessage._nextSerial > 0xFFFFFFFF:\n",
     "            if DBusMessage._nextSerial > 0xFFFFFFFFFFFF:\n",
     'the serial counter grows beyond 2^32-1: nothing can be marshalled any more (the original defect)'),
    ('m_c17_unsupported_interface_cached', 'C17', 'quick', 'txdbus/objects.py',
     "            else:\n                # nothing may be cached for this class on behalf of an\n                # object that does not support the property's interface\n                raise AttributeError(",
     "            else:\n                # nothing may be cached for this class on behalf of an\n                # object that does not support the property's interface\n                AttributeError(",
     'a property whose interface the object lacks is cached half-resolved on the shared base class (the original defect)'),
    ('m_c16_gmo_exception_escapes', 'C16', 'quick', 'txdbus/objects.py',
     "            except Exception as e:\n                # a property value that cannot be encoded must not cost the\n",
     "            except ZeroDivisionError as e:\n                # a property value that cannot be encoded must not cost the\n",
     'an unencodable property value makes GetManagedObjects raise into dataReceived (the original defect)'),
    ('m_c04_endian_sticky', 'C04', 'quick', 'txdbus/protocol.py',
     "                    else:\n                        self._endian = '<'\n", "",
     'byte order is not reset to little endian after a big-endian message'),
    ('m_c04_join_lost', 'C04', 'quick', 'txdbus/protocol.py',
     "                            self._buffer = self.authDelimiter.join(\n                                lines[lineno + 1:] + [self._buffer])\n",
     "",
     'bytes after the final handshake line are not re-joined (CR LF inside the first messages)'),
    ('m_c05_zero_size_loop', 'C05', 'quick', 'txdbus/marshal.py',
     "        if nbytes == 0:\n", "        if nbytes < 0:\n",
     'zero-size array elements loop again'),
    ('m_c05_dropped_client_kept', 'C05', 'quick', 'txdbus/bus.py',
     "        if proto.uniqueName:\n            del self.clients[proto.uniqueName]\n",
     "        if proto.uniqueName and proto.busNames:\n            del self.clients[proto.uniqueName]\n",
     'a lost connection that owns no name stays in the client table'),
    ('m_c06_begin_in_data_state', 'C06', 'quick', 'txdbus/authentication.py',
     "        if self.state == 'WaitingForBegin':\n            self.authenticated = True",
     "        if self.state in ('WaitingForBegin', 'WaitingForData'):\n            self.authenticated = True",
     'BEGIN authenticates while a challenge is still outstanding'),
    ('m_c06_data_in_begin_state', 'C06', 'quick', 'txdbus/authentication.py',
     "    def _auth_DATA(self, line):\n        if self.state == 'WaitingForData':",
     "    def _auth_DATA(self, line):\n        if self.state in ('WaitingForData', 'WaitingForBegin'):",
     'DATA after OK steps the mechanism again'),
    ('m_c07_agree_any_time', 'C07', 'quick', 'txdbus/authentication.py',
     "        if self.unixFDSupport and self.negotiatingUnixFD:",
     "        if self.unixFDSupport:",
     'AGREE_UNIX_FD accepted without a pending negotiation (the original defect)'),
    ('m_c08_no_timer_cancel', 'C08', 'quick', 'txdbus/client.py',
     "        d, timeout = self._pendingCalls.get(mret.reply_serial, (None, None))\n        if timeout:\n            timeout.cancel()\n",
     "        d, timeout = self._pendingCalls.get(mret.reply_serial, (None, None))\n",
     'a method return no longer cancels the deadline'),
    ('m_c08_timeout_keeps_entry', 'C08', 'quick', 'txdbus/client.py',
     "        del self._pendingCalls[serial]\n        d.errback(error.TimeOut('Method call timed out'))",
     "        d.errback(error.TimeOut('Method call timed out'))",
     'the pending entry survives the timeout: a late reply fires the Deferred again'),
    ('m_c08_struct_unwrapped', 'C08', 'quick', 'txdbus/client.py',
     "        if len(msg.body) == 1 and not msg.signature[0] == '(':",
     "        if len(msg.body) == 1:",
     'a single struct return value is unwrapped'),
    ('m_c08_error_message_any_type', 'C08', 'quick', 'txdbus/client.py',
     "                if isinstance(merr.body[0], str):\n                    e.message = merr.body[0]",
     "                e.message = merr.body[0]",
     'a non-string first error value becomes the message'),
    ('m_c09_early_return', 'C09', 'quick', 'txdbus/client.py',
     "        if not self._authenticated:\n            # Lost during authentication",
     "        if self.busName is None:\n            return\n\n        if not self._authenticated:\n            # Lost during authentication",
     'loss before Hello completes is ignored again'),
    ('m_c09_timer_survives_loss', 'C09', 'quick', 'txdbus/client.py',
     "        for d, timeout in pending:\n            if timeout:\n                timeout.cancel()\n            d.errback(reason)",
     "        for d, timeout in pending:\n            d.errback(reason)",
     'deadlines are not cancelled on connection loss'),
    ('m_c09_proxy_registry_explicit', 'C09', 'quick', 'txdbus/objects.py',
     "                prox = RemoteDBusObject(self, busName, objectPath, ifl)\n\n                self._registerProxy(prox)\n",
     "                prox = RemoteDBusObject(self, busName, objectPath, ifl)\n",
     'explicit-interface proxies are not registered for disconnect notification'),
    ('m_c10_no_sig_check', 'C10', 'quick', 'txdbus/objects.py',
     "        if esig != msig:\n", "        if esig != msig and msig:\n",
     'a call without arguments is dispatched whatever the declared signature'),
    ('m_c10_reply_when_flagged', 'C10', 'quick', 'txdbus/message.py',
     "    m.expectReply = not (hval[2] & 0x1)\n", "    m.expectReply = not (hval[2] & 0x2)\n",
     'NO_AUTO_START is read as NO_REPLY_EXPECTED'),
    ('m_c10_error_dest', 'C10', 'quick', 'txdbus/objects.py',
     "                r = message.ErrorMessage(name, msg.serial,\n                                         body=[errMsg],\n                                         signature='s',\n                                         destination=msg.sender)",
     "                r = message.ErrorMessage(name, msg.serial,\n                                         body=[errMsg],\n                                         signature='s',\n                                         destination=msg.destination)",
     'error replies of raising implementations are addressed to the destination of the call'),
    ('m_c11_proxy_ignores_interface', 'C11', 'quick', 'txdbus/objects.py',
     "        for i in self.interfaces:\n            if interface and not interface == i.name:\n                continue\n            m = i.methods.get(methodName, None)",
     "        for i in self.interfaces:\n            m = i.methods.get(methodName, None)",
     'proxy.callRemote ignores interface= when two interfaces share a member'),
    ('m_c11_bus_reencodes_body', 'C11,C14', 'quick', 'txdbus/bus.py',
     "        msg._marshal(False, rawBody=msg.rawBody)", "        msg._marshal(False)",
     'the bus re-encodes bodies through variant inference again'),
    ('m_c12_delmatch_keeps_rule', 'C12', 'quick', 'txdbus/client.py',
     "            del self.match_rules[rule_id]\n            self.router.delMatch(rule_id)",
     "            del self.match_rules[rule_id]",
     'delMatch leaves the rule in the router'),
    ('m_c12_namespace_prefix', 'C12', 'quick', 'txdbus/router.py',
     "                    or m.path.startswith(ns.rstrip('/') + '/')",
     "                    or m.path.startswith(ns)",
     'path_namespace is a plain prefix again'),
    ('m_c12_proxy_sig_unchecked', 'C12', 'quick', 'txdbus/objects.py',
     "            if isSignatureValid(signal.sig, sig_msg.signature):\n                if sig_msg.body:",
     "            if True:\n                if sig_msg.body:",
     'proxy signal callbacks run whatever the signature'),
    ('m_c13_promote_last', 'C13', 'quick', 'txdbus/bus.py',
     "            if queue:\n                self.sendSignal(queue[0], 'NameAcquired', 's', name)",
     "            if queue:\n                queue.insert(0, queue.pop())\n                self.sendSignal(queue[0], 'NameAcquired', 's', name)",
     'the most recently queued client is promoted instead of the longest waiting'),
    ('m_c13_disconnect_keeps_waiters', 'C13', 'quick', 'txdbus/bus.py',
     "        if caller not in queue:\n            return client.NAME_NOT_OWNER\n",
     "        if caller not in queue or (not caller.isConnected and queue[0] is not caller):\n            return client.NAME_NOT_OWNER\n",
     'a waiting client that disconnects stays queued'),
    ('m_c13_replace_without_permission', 'C13', 'quick', 'txdbus/bus.py',
     "            if replace_existing and owner.busNames[name]:",
     "            if replace_existing and (owner.busNames[name] or allow_replacement):",
     'replacement also succeeds when only the requester allows replacement'),
    ('m_c14_sender_kept', 'C14', 'quick', 'txdbus/bus.py',
     "        msg.sender = self.uniqueName\n",
     "        if getattr(msg, 'sender', None) is None:\n            msg.sender = self.uniqueName\n",
     'a sender field written by the client is forwarded as it is'),
    ('m_c14_unique_name_reused', 'C14,C13', 'quick', 'txdbus/bus.py',
     "        if proto.uniqueName:\n            del self.clients[proto.uniqueName]\n",
     "        if proto.uniqueName:\n            del self.clients[proto.uniqueName]\n            if proto.uniqueName == ':1.%d' % (self.next_id - 1,):\n                self.next_id -= 1\n",
     'the unique name of the most recent connection is reused after it disconnects'),
    ('m_c14_route_unicast', 'C14', 'quick', 'txdbus/bus.py',
     "            else:\n                # broadcast: every connection holding a matching rule\n                self.router.routeMessage(msg)",
     "            if not msg.destination or msg._messageType == 4:\n                self.router.routeMessage(msg)",
     'addressed signals are also routed through the match rules'),
    ('m_c16_children_prefix', 'C16', 'quick', 'txdbus/introspection.py',
     "    if not objectPath.endswith('/'):\n        objectPath += '/'\n", "",
     'introspection children are computed by plain prefix'),
    ('m_c16_unexport_silent', 'C16', 'quick', 'txdbus/objects.py',
     "            signature='sas',\n            body=[o.getObjectPath(), i],\n        )\n\n        self.conn.sendMessage(msig)",
     "            signature='sas',\n            body=[o.getObjectPath(), i],\n        )\n\n        if self.exports:\n            self.conn.sendMessage(msig)",
     'unexporting the last object announces nothing'),
    ('m_c16_gmo_includes_self', 'C16', 'quick', 'txdbus/objects.py',
     "            if not p.startswith(prefix) or p == objectPath:",
     "            if not p.startswith(prefix) and p != objectPath:",
     'GetManagedObjects lists the queried object itself'),
    ('m_c17_write_only_readable', 'C17', 'quick', 'txdbus/objects.py',
     "        if p.iprop.access == 'write':\n            raise Exception('Property is not readable')\n", "",
     'Get reveals write-only properties'),
    ('m_c17_set_read_only', 'C17', 'quick', 'txdbus/objects.py',
     "        if p.iprop.access not in ('write', 'readwrite'):\n            raise Exception('Property is not Writeable')\n",
     "",
     'Set succeeds on read-only properties'),
    ('m_c17_getall_first_class_only', 'C17', 'quick', 'txdbus/objects.py',
     "                if ifc:\n                    for p in ifc.properties.values():\n                        addp(p)\n",
     "                if ifc:\n                    for p in ifc.properties.values():\n                        addp(p)\n                    break\n",
     'GetAll stops at the first class that mentions the interface (the original defect)'),
    ('m_c17_emit_false', 'C17', 'quick', 'txdbus/objects.py',
     "        if self.iprop.emits == 'true':", "        if self.iprop.emits != 'false':",
     "properties declared 'invalidates' emit PropertiesChanged with the value"),
    ('m_c06_reject_count_reset', 'C06', 'quick', 'txdbus/authentication.py',
     "        elif status == 'CONTINUE':\n            if isinstance(challenge, str):",
     "        elif status == 'CONTINUE':\n            self.reject_count = 0\n            if isinstance(challenge, str):",
     'every issued challenge resets the rejection counter'),
    ('m_c07_negotiate_everywhere', 'C07', 'quick', 'txdbus/authentication.py',
     "            and interfaces.IUNIXTransport.providedBy(protocol.transport)",
     "            and hasattr(protocol.transport, 'sendFileDescriptor')",
     'descriptor passing is negotiated on every transport that happens to have the method'),
    ('m_c20_fd_after_write', 'C20', 'quick', 'txdbus/protocol.py',
     "        if hasattr(msg, 'oobFDs') and msg.oobFDs:\n            for fd in msg.oobFDs:\n                self.transport.sendFileDescriptor(fd)\n        self.transport.write(msg.rawMessage)",
     "        self.transport.write(msg.rawMessage)\n        if hasattr(msg, 'oobFDs') and msg.oobFDs:\n            for fd in msg.oobFDs:\n                self.transport.sendFileDescriptor(fd)",
     'descriptors are handed to the transport after the message bytes'),
]


def main():
    verify = '--verify' in sys.argv
    for f in os.listdir(OUT):
        if f.endswith('.patch'):
            os.remove(os.path.join(OUT, f))
    bad = 0
    for name, props, tier, path, old, new, comment in CAT:
        src = open(os.path.join(REPO, path)).read()
        if src.count(old) != 1:
            print('!! %s: pattern occurs %d times in %s' % (name, src.count(old), path))
            bad += 1
            continue
        dst = src.replace(old, new)
        diff = ''.join(difflib.unified_diff(src.splitlines(True), dst.splitlines(True),
                                            'a/' + path, 'b/' + path, n=3))
        with open(os.path.join(OUT, name + '.patch'), 'w') as f:
            f.write('# property: %s\n# tier: %s\n# %s\n' % (props, tier, comment))
            f.write(diff)
        if verify:
            scratch = '/dev/shm/mkmut-%d' % os.getpid()
            subprocess.run(['rm', '-rf', scratch])
            subprocess.run(['git', '-C', REPO, 'worktree', 'add', '-q', '--detach', scratch, 'HEAD'], check=True)
            try:
                open(os.path.join(scratch, path), 'w').write(dst)
                r = subprocess.run(['/venv/bin/python', '-m', 'pytest', '-q', '-p', 'no:cacheprovider',
                                    '--timeout=600', 'tests'], cwd=scratch, capture_output=True, text=True)
                tail = r.stdout.strip().splitlines()[-1]
                ok = '164 passed' in tail and '3 failed' in tail
                print('%-36s %s %s' % (name, 'tests-unchanged' if ok else 'TESTS-CHANGED', tail))
                if not ok:
                    bad += 1
            finally:
                subprocess.run(['git', '-C', REPO, 'worktree', 'remove', '--force', scratch])
    print('%d mutants written, %d problems' % (len(CAT) - bad, bad))
    return 1 if bad else 0


if __name__ == '__main__':
    sys.exit(main())
