#!/venv/bin/python
"""Regenerates MANIFEST.json from the check modules' metadata."""
import importlib
import json
import os
import sys

HERE = os.path.dirname(os.path.dirname(os.path.abspath(__file__)))
sys.path.insert(0, HERE)

PURE = {
    'C01': 'pure function of (signature, values, byte order, offset): no schedule, clock, fault or interleaving for a simulator to own (DESIGN.md section 5)',
    'C02': 'pure input property (byte-exactness against the specification); needs differential testing against a reference codec, not simulation (DESIGN.md section 5)',
    'C03': 'pure function of the constructor arguments / of the byte string (DESIGN.md section 5)',
    'C15': 'pure function of the interface definition: XML generation followed by XML parsing (DESIGN.md section 5)',
    'C18': 'pure predicates on strings (DESIGN.md section 5)',
    'C19': 'pure functions genCompleteTypes / sigFromPy / variant round trip (DESIGN.md section 5)',
}
ALL = ['C%02d' % i for i in range(1, 21)]

checks = []
na = []
for pid in ALL:
    if pid in PURE:
        na.append({'property_id': pid, 'reason': PURE[pid]})
        continue
    path = os.path.join(HERE, 'checks', pid.lower() + '.py')
    if not os.path.exists(path):
        na.append({'property_id': pid, 'reason': 'simulation check designed (DESIGN.md section 4) but not built yet; not claimed until it is'})
        continue
    m = importlib.import_module('checks.' + pid.lower())
    checks.append({
        'property_id': pid,
        'quick_cmd': './check %s quick' % pid,
        'thorough_cmd': './check %s thorough' % pid,
        'evidence_file': '/verif/evidence/%s.json' % pid,
        'replay_cmd_template': './check %s --replay {path}' % pid,
        'engine': 'simdbus',
        'level_claimed': {
            'category': getattr(m, 'LEVEL', 'exploration'),
            'text': getattr(m, 'LEVEL_TEXT', m.__doc__.strip().split('\n\n')[0]),
            'design_ref': 'DESIGN.md section 4, %s' % pid,
        },
        'level_note': getattr(m, 'LEVEL_NOTE', '; '.join(getattr(m, 'ASSUMPTIONS', []))),
        'technique': getattr(m, 'TECHNIQUE', 'deterministic simulation with fault injection: seeded search over schedules and fault sequences, reference-model oracle, minimised replay'),
    })

doc = {
    'version': 1,
    'setup_cmd': "/venv/bin/python -c \"import sys; sys.path.insert(0, '/repo'); import twisted, txdbus.bus, txdbus.client; print('ok', twisted.__version__)\"",
    'hooks': {
        'guard': 'TXDBUS_VERIF',
        'enable': 'no source hooks: every seam is an existing injection point or a module-level reference rebound at run time by simdbus/seams.py (DESIGN.md 2.1)',
        'baseline_off_cmd': 'cd /repo && /venv/bin/python -m pytest -q -p no:cacheprovider --timeout=900',
        'source_commits': [],
        'add_only': True,
    },
    'engines': [{
        'name': 'simdbus',
        'path': '/verif/simdbus',
        'serves_properties': [c['property_id'] for c in checks],
        'kind_free_text': 'deterministic simulator for Twisted/txdbus: decision stream, seeded scheduler, in-memory stream transports with close/reset/stall faults, virtual-time reactor, per-node process globals, reference DBus codec and scripted peers, list shrinking, replay files',
    }],
    'checks': checks,
    'not_applicable': na,
    'notes': 'exit 0 = held; exit 1 + VIOLATION line = violation with replay file; exit 2 = harness error. known_findings.json lists recorded and fixed defects. VERIF_SEED, VERIF_TIER, VERIF_BUDGET_S, VERIF_RUNS, VERIF_WORKERS, VERIF_REPO are honoured.',
}
with open(os.path.join(HERE, 'MANIFEST.json'), 'w') as f:
    json.dump(doc, f, indent=1)
print('checks:', [c['property_id'] for c in checks])
